"""Exact-arithmetic element-level oracle (Fractions) over the abstract VIEW of a geometry array:
a view is a python list whose items are None (missing) or nested lists of numbers:
  point: [x, y]; multipoint / line / ring: [x0,y0,x1,y1,...]; multiline / polygon: [[...],[...]];
  multipolygon: [[[...],...],...].
These are the declarative specs of C01/C02/C13/C14 (the same ones the kernels are PROVED against under
pyvc); here they serve as the reference of the run-time checked contracts of the glue layer."""
import math
from fractions import Fraction as Fr

LIST1 = ('multipoint', 'line', 'ring')
LIST2 = ('multiline', 'polygon')


def isfin(v):
    return isinstance(v, int) or (isinstance(v, float) and math.isfinite(v)) or isinstance(v, Fr)


def flat_coords(kind, el):
    if el is None:
        return []
    if kind == 'point' or kind in LIST1:
        return list(el)
    if kind in LIST2:
        return [c for part in el for c in part]
    return [c for poly in el for ring in poly for c in ring]


def parts(kind, el):
    """innermost coordinate lists (lines / rings) of an element"""
    if el is None:
        return []
    if kind == 'point' or kind in LIST1:
        return [list(el)]
    if kind in LIST2:
        return [list(p) for p in el]
    return [list(r) for poly in el for r in poly]


def bounds(kind, el):
    cs = flat_coords(kind, el)
    xs = [c for c in cs[0::2] if isfin(c)]
    ys = [c for c in cs[1::2] if isfin(c)]
    nan = float('nan')
    x0, x1 = (min(xs), max(xs)) if xs else (nan, nan)
    y0, y1 = (min(ys), max(ys)) if ys else (nan, nan)
    return (x0, y0, x1, y1)


def total_bounds(kind, view):
    cs = []
    for el in view:
        cs += flat_coords(kind, el)
    xs = [c for c in cs[0::2] if isfin(c)]
    ys = [c for c in cs[1::2] if isfin(c)]
    nan = float('nan')
    return ((min(xs) if xs else nan), (min(ys) if ys else nan), (max(xs) if xs else nan), (max(ys) if ys else nan))


def same_float(a, b):
    a, b = float(a), float(b)
    return (math.isnan(a) and math.isnan(b)) or a == b


def line_length(coords):
    tot = 0.0
    pts = list(zip(coords[0::2], coords[1::2]))
    for (x0, y0), (x1, y1) in zip(pts, pts[1:]):
        if all(isfin(v) for v in (x0, y0, x1, y1)):
            tot += math.sqrt(float(Fr(x1) - Fr(x0)) ** 2 + float(Fr(y1) - Fr(y0)) ** 2)
    return tot


def ring_area2(coords):
    """twice the signed shoelace area of a closed ring (first vertex == last), exact; 0 below 3 stored vertices"""
    pts = [(Fr(x), Fr(y)) for x, y in zip(coords[0::2], coords[1::2])]
    if len(pts) < 3:
        return Fr(0)
    s = Fr(0)
    for (x0, y0), (x1, y1) in zip(pts, pts[1:]):
        s += x0 * y1 - x1 * y0
    return s


def length(kind, el):
    if el is None:
        return float('nan')
    if kind in ('point', 'multipoint'):
        return 0.0
    return sum(line_length(p) for p in parts(kind, el))


def area(kind, el):
    if el is None:
        return float('nan')
    if kind in ('polygon', 'multipolygon'):
        return float(sum(ring_area2(p) for p in parts(kind, el)) / 2)
    return 0.0


# ------------------------------------------------------------------ predicates (exact)

def norm_box(box):
    x0, y0, x1, y1 = [Fr(v) for v in box]
    if x1 < x0:
        x0, x1 = x1, x0
    if y1 < y0:
        y0, y1 = y1, y0
    return x0, y0, x1, y1


def pt_in_box(x, y, b):
    return b[0] <= x <= b[2] and b[1] <= y <= b[3]


def seg_meets_box(p, q, b):
    """closed segment p-q shares a point with the closed box (Liang-Barsky, exact)"""
    (x0, y0), (x1, y1) = p, q
    dx, dy = x1 - x0, y1 - y0
    t0, t1 = Fr(0), Fr(1)
    for pk, qk in ((-dx, x0 - b[0]), (dx, b[2] - x0), (-dy, y0 - b[1]), (dy, b[3] - y0)):
        if pk == 0:
            if qk < 0:
                return False
        else:
            t = qk / pk
            if pk < 0:
                t0 = max(t0, t)
            else:
                t1 = min(t1, t)
    return t0 <= t1


def contrib(p0, p1, pt):
    (x0, y0), (x1, y1) = p0, p1
    x, y = pt
    if y0 == y1:
        return 0
    up = y0 < y1
    lo, hi = (p0, p1) if up else (p1, p0)
    cross = (lo[0] - x) * (hi[1] - y) - (lo[1] - y) * (hi[0] - x)
    if lo[1] < y <= hi[1] and cross >= 0:
        return 1 if up else -1
    return 0


def winding(rings, pt):
    wn = 0
    for r in rings:
        pts = [(Fr(x), Fr(y)) for x, y in zip(r[0::2], r[1::2])]
        for a, b in zip(pts, pts[1:]):
            wn += contrib(a, b, pt)
    return wn


def on_ring(rings, pt):
    for r in rings:
        pts = [(Fr(x), Fr(y)) for x, y in zip(r[0::2], r[1::2])]
        for a, b in zip(pts, pts[1:]):
            if on_seg(a, b, pt):
                return True
    return False


def on_seg(a, b, p):
    (ax, ay), (bx, by), (px, py) = a, b, p
    if not (min(ax, bx) <= px <= max(ax, bx) and min(ay, by) <= py <= max(ay, by)):
        return False
    return (bx - ax) * (py - ay) - (by - ay) * (px - ax) == 0


def line_meets_box(coords, b):
    pts = [(Fr(x), Fr(y)) for x, y in zip(coords[0::2], coords[1::2])]
    if any(pt_in_box(x, y, b) for x, y in pts):
        return True
    return any(seg_meets_box(p, q, b) for p, q in zip(pts, pts[1:]))


def polygon_meets_box(rings, b):
    if any(line_meets_box(r, b) for r in rings):
        return True
    # no ring touches the closed box: the box is entirely inside or entirely outside the region
    corner = (b[0], b[1])
    return winding(rings, corner) != 0


def intersects_bounds(kind, el, box):
    """closed point set of the element shares a point with the closed box (C01 spec).  Degenerate boxes only
    for points / multipoints."""
    if el is None:
        return False
    b = norm_box(box)
    if kind in ('point', 'multipoint'):
        cs = list(el)
        return any(pt_in_box(Fr(x), Fr(y), b) for x, y in zip(cs[0::2], cs[1::2])
                   if isfin(x) and isfin(y))
    if kind in ('line', 'ring'):
        return line_meets_box(el, b)
    if kind == 'multiline':
        return any(line_meets_box(l, b) for l in el)
    if kind == 'polygon':
        return polygon_meets_box(el, b)
    return any(polygon_meets_box(p, b) for p in el)


def point_intersects(pt, kind, shape):
    """C02 spec; returns True / False / None (None = point on a polygon ring: outside the guarantee)"""
    if pt is None or shape is None:
        return False
    p = (Fr(pt[0]), Fr(pt[1]))
    if kind == 'point':
        return (Fr(shape[0]), Fr(shape[1])) == p
    if kind == 'multipoint':
        return any((Fr(x), Fr(y)) == p for x, y in zip(shape[0::2], shape[1::2]))
    if kind in ('line', 'ring', 'multiline'):
        for l in parts(kind, shape):
            pts = [(Fr(x), Fr(y)) for x, y in zip(l[0::2], l[1::2])]
            if p in pts:
                return True
            if any(on_seg(a, b, p) for a, b in zip(pts, pts[1:])):
                return True
        return False
    rings = parts(kind, shape)
    if on_ring(rings, p):
        return None
    return winding(rings, p) != 0


def code_rule_point_in_polygon(pt, kind, shape):
    """the half-open rule itself (used to compare scalar / array / inds forms on boundary points)"""
    return winding(parts(kind, shape), (Fr(pt[0]), Fr(pt[1]))) != 0
