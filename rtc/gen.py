"""Generators of geometry arrays (with their abstract views) for the run-time checked contracts.
Integer / dyadic coordinates (exactly representable; products exact in float64)."""
import random

KINDS = ('point', 'multipoint', 'line', 'ring', 'multiline', 'polygon', 'multipolygon')


def cls_of(kind):
    import spatialpandas.geometry as g
    return {'point': g.PointArray, 'multipoint': g.MultiPointArray, 'line': g.LineArray, 'ring': g.RingArray,
            'multiline': g.MultiLineArray, 'polygon': g.PolygonArray, 'multipolygon': g.MultiPolygonArray}[kind]


def scalar_cls_of(kind):
    import spatialpandas.geometry as g
    return {'point': g.Point, 'multipoint': g.MultiPoint, 'line': g.Line, 'ring': g.Ring,
            'multiline': g.MultiLine, 'polygon': g.Polygon, 'multipolygon': g.MultiPolygon}[kind]


def coord(rng, lo=-6, hi=10):
    if rng.random() < 0.15:
        return rng.randint(lo * 2, hi * 2) / 2.0
    return float(rng.randint(lo, hi))


_ROT = random.Random(12345)


def rotated(ring, k=None):
    """the same closed ring starting at another of its vertices"""
    pts = list(zip(ring[0::2], ring[1::2]))[:-1]
    if not pts:
        return ring
    k = _ROT.randrange(len(pts)) if k is None else k % len(pts)
    pts = pts[k:] + pts[:k]
    pts.append(pts[0])
    return [c for p in pts for c in p]


def rect_ring(x0, y0, x1, y1, ccw=True, start=None):
    r = [x0, y0, x1, y0, x1, y1, x0, y1, x0, y0]
    if not ccw:
        pts = list(zip(r[0::2], r[1::2]))[::-1]
        r = [c for p in pts for c in p]
    r = [float(v) for v in r]
    return rotated(r, start) if start is not None else r


def simple_ring(rng, cx, cy, rad, ccw=True):
    """a small simple polygon around (cx, cy): rectangle, triangle, or an L / staircase shape"""
    t = rng.random()
    if t < 0.4:
        w, h = rng.randint(1, rad), rng.randint(1, rad)
        ring = rect_ring(cx - w, cy - h, cx + w, cy + h)
    elif t < 0.7:
        a = (cx - rng.randint(1, rad), cy - rng.randint(0, rad))
        b = (cx + rng.randint(1, rad), cy - rng.randint(0, rad))
        c = (cx + rng.randint(-rad, rad), cy + rng.randint(1, rad))
        ring = [float(v) for v in (a + b + c + a)]
    else:
        w, h = rng.randint(2, max(2, rad)), rng.randint(2, max(2, rad))
        ring = [float(v) for v in (cx - w, cy - h, cx + w, cy - h, cx + w, cy, cx, cy, cx, cy + h, cx - w, cy + h, cx - w, cy - h)]
    # orient
    s = 0.0
    pts = list(zip(ring[0::2], ring[1::2]))
    for (x0, y0), (x1, y1) in zip(pts, pts[1:]):
        s += x0 * y1 - x1 * y0
    if (s > 0) != ccw:
        ring = [c for p in pts[::-1] for c in p]
    return ring


def polygon(rng, cx=None, cy=None, ccw=None):
    """valid polygon: a rectangular shell with 0..2 disjoint rectangular holes strictly inside, wound opposite"""
    cx = rng.randint(-3, 6) if cx is None else cx
    cy = rng.randint(-3, 6) if cy is None else cy
    ccw = (rng.random() < 0.5) if ccw is None else ccw
    if rng.random() < 0.45:
        return [simple_ring(rng, cx, cy, 3, ccw)]
    w, h = rng.randint(3, 5), rng.randint(3, 5)
    # every ring starts at an arbitrary one of its vertices
    shell = rect_ring(cx - w, cy - h, cx + w, cy + h, ccw, start=rng.randrange(4))
    holes = []
    nh = rng.choice([0, 1, 1, 2])
    if nh >= 1:
        holes.append(rect_ring(cx - w + 1, cy - h + 1, cx - 1, cy + h - 1, not ccw, start=rng.randrange(4)))
    if nh >= 2:
        holes.append(rect_ring(cx + 1, cy - h + 1, cx + w - 1, cy - 1, not ccw, start=rng.randrange(4)))
    return [shell] + holes


NONFINITE = (float('nan'), float('inf'), float('-inf'))


def element(kind, rng, allow_nonfinite=False):
    if kind == 'point':
        out = [coord(rng), coord(rng)]
        if allow_nonfinite and rng.random() < 0.2:
            out[rng.randrange(2)] = rng.choice(NONFINITE)
        return out
    if kind == 'multipoint':
        out = [coord(rng) for _ in range(2 * rng.choice([0, 1, 2, 3, 4]))]
        if allow_nonfinite and out and rng.random() < 0.2:
            out[rng.randrange(len(out))] = rng.choice(NONFINITE)
        return out
    if kind == 'line':
        n = rng.choice([1, 2, 2, 3, 4, 5])
        out = [coord(rng) for _ in range(2 * n)]
        if rng.random() < 0.2 and n >= 2:    # repeated vertex / zero-length segment
            out[2:4] = out[0:2]
        if allow_nonfinite and rng.random() < 0.15:
            out[rng.randrange(len(out))] = rng.choice(NONFINITE)
        return out
    if kind == 'ring':
        return simple_ring(rng, rng.randint(-3, 6), rng.randint(-3, 6), 3, rng.random() < 0.5)
    if kind == 'multiline':
        return [element('line', rng, allow_nonfinite) for _ in range(rng.choice([1, 1, 2, 3]))]
    if kind == 'polygon':
        return polygon(rng)
    if kind == 'multipolygon':
        k = rng.choice([1, 1, 2, 3])
        ccw = rng.random() < 0.7
        out = [polygon(rng, cx=-6 + 12 * i + rng.randint(-1, 1), cy=rng.randint(-3, 6), ccw=ccw) for i in range(k)]
        if rng.random() < 0.2:
            out.insert(rng.randint(0, len(out)), [])        # a part without rings
        return out
    raise ValueError(kind)


def empty_element(kind):
    return {'multipoint': [], 'line': [], 'ring': [], 'multiline': [], 'polygon': [], 'multipolygon': []}.get(kind)


def elements(kind, rng, n=None, p_missing=0.2, p_empty=0.1, allow_nonfinite=False):
    n = rng.choice([0, 1, 2, 3, 4, 5, 6]) if n is None else n
    out = []
    for _ in range(n):
        r = rng.random()
        if r < p_missing:
            out.append(None)
        elif r < p_missing + p_empty and kind != 'point':
            out.append(empty_element(kind))
        else:
            out.append(element(kind, rng, allow_nonfinite))
    return out


def scaled(x, f):
    """every coordinate multiplied by f (a power of two: exact)"""
    if x is None:
        return None
    if isinstance(x, list):
        return [scaled(v, f) for v in x]
    return float(x) * f


SCALES = (2.0 ** -14, 2.0 ** -20, 2.0 ** -30, 2.0 ** 12)


def build(kind, els, dtype='float64'):
    import numpy as np
    C = cls_of(kind)
    if kind == 'point':
        return C([None if e is None else np.asarray(e, dtype=dtype) for e in els] if els else [], dtype=dtype)
    return C(els, dtype=dtype)


def _coords(x):
    if x is None:
        return []
    if isinstance(x, list):
        return [c for v in x for c in _coords(v)]
    return [x]


def pick_dtype(rng, els):
    """a coordinate subtype in which every coordinate of `els` is exactly representable"""
    import math
    import numpy as np
    cs = _coords(els)
    if rng.random() < 0.5:
        return 'float64'
    if all(math.isfinite(c) and float(c).is_integer() and abs(c) < 2 ** 14 for c in cs):
        return rng.choice(['float32', 'int64', 'int32', 'int16', 'float64'])
    if all((not math.isfinite(c)) or float(np.float32(c)) == float(c) for c in cs):
        return rng.choice(['float32', 'float64'])
    return 'float64'


class DerivationError(Exception):
    """a derivation step (all of them valid requests) raised in the code under test"""

    def __init__(self, step, exc, recipe=None):
        super().__init__(f'{step}: {type(exc).__name__}: {exc}')
        self.step, self.exc, self.recipe = step, exc, recipe


def apply_steps(arr, view, steps):
    for st in steps:
        try:
            arr, view = _apply_step(arr, view, st)
        except Exception as e:
            raise DerivationError(st, e)
    return arr, view


def _apply_step(arr, view, st):
    import numpy as np
    if True:
        op = st[0]
        if op == 'slice':
            sl = slice(st[1], st[2], st[3])
            arr, view = arr[sl], view[sl]
        elif op == 'take':
            idx = st[1]
            arr = arr.take(idx, allow_fill=True)
            view = [None if i == -1 else view[i] for i in idx]
        elif op == 'take_nofill':
            idx = st[1]
            arr = arr.take(idx, allow_fill=False) if st[2] == 'take' else arr[np.array(idx, dtype='int64')]
            view = [view[i] for i in idx]
        elif op == 'mask':
            m = np.array(st[1], dtype=bool)
            arr = arr[m]
            view = [v for v, keep in zip(view, st[1]) if keep]
        elif op == 'concat_self':
            arr = type(arr)._concat_same_type([arr, arr])
            view = view + view
        elif op == 'copy':
            arr = arr.copy()
        elif op == 'pickle':
            import pickle
            arr = pickle.loads(pickle.dumps(arr))
    return arr, view


def random_steps(rng, n):
    steps = []
    for _ in range(rng.choice([0, 0, 1, 1, 2, 3])):
        if n == 0:
            steps.append(rng.choice([['copy'], ['concat_self'], ['pickle']]))
            if steps[-1][0] == 'concat_self':
                n *= 2
            continue
        op = rng.choice(['slice', 'slice', 'take', 'mask', 'concat_self', 'copy', 'pickle'])
        if op == 'slice':
            a = rng.randint(0, n)
            if n >= 9 and rng.random() < 0.5:
                a = 8 * rng.randint(1, n // 8)      # byte-aligned start: validity bitmaps are read per byte
            b = rng.randint(a, n)
            if rng.random() < 0.3:
                # any step, either sign, with present / omitted / negative / over-long ends (python's slice semantics
                # are the oracle): spans that are not a multiple of the step, start above stop for negative steps
                stp = rng.choice([2, 3, -1, -2, -2, -3, -4, 5])
                ends = [None, None] + list(range(-n - 1, n + 2))
                sa, sb = rng.choice(ends), rng.choice(ends)
                if stp < 0 and sa is not None and sb is not None and rng.random() < 0.6:
                    sa, sb = max(sa, sb), min(sa, sb)
                steps.append(['slice', sa, sb, stp])
                n = len(range(n)[sa:sb:stp])
                continue
            step = rng.choice([None, None, None, 2, -1])
            if step is None and rng.random() < 0.25:
                # counted from the end, open or over-long stop (what `tail`-like code and "whole array" tests see)
                k = rng.randint(1, n)
                stop = rng.choice([None, None, n + 3])
                steps.append(['slice', -k, stop, None])
                n = k
                continue
            if step is None and n >= 2 and rng.random() < 0.1:
                # start after stop: the empty selection (list / numpy / pandas semantics), not an error
                a = rng.randint(1, n)
                b = rng.randint(0, a - 1)
                if rng.random() < 0.4:
                    a, b = a - n - (1 if a == n else 0), b - n       # the same positions counted from the end
                steps.append(['slice', a, b, None])
                n = len(range(n)[a:b])
                continue
            if step == -1:
                steps.append(['slice', None, None, -1])
            else:
                steps.append(['slice', a, b, step])
                n = len(range(n)[a:b:step])
        elif op == 'take':
            k = rng.randint(0, n + 1)
            idx = [rng.choice(list(range(n)) + [-1]) for _ in range(k)]
            if rng.random() < 0.5 and k > 0:
                # take without fill / integer-array indexing: non-decreasing with repeats and gaps (what boolean
                # masks, iloc ranges and "contiguous run" shortcuts are tempted by), possibly counted from the end
                idx = sorted(rng.choice(range(n)) for _ in range(k))
                if rng.random() < 0.3:
                    idx = [i - n for i in idx]
                steps.append(['take_nofill', idx, rng.choice(['take', 'getitem'])])
            else:
                steps.append(['take', idx])
            n = k
        elif op == 'mask':
            m = [rng.random() < 0.6 for _ in range(n)]
            steps.append(['mask', m])
            n = sum(m)
        elif op == 'concat_self':
            steps.append(['concat_self'])
            n *= 2
        else:
            steps.append([op])
    return steps


class Case:
    def __init__(self, kind, els, steps, dtype='float64'):
        self.kind = kind
        self.dtype = dtype
        self.recipe = {'kind': kind, 'elements': els, 'steps': steps, 'dtype': dtype}
        base = build(kind, els, dtype)
        try:
            self.arr, self.view = apply_steps(base, list(els), steps)
        except DerivationError as e:
            e.recipe = self.recipe
            raise
        from .registry import note_input
        note_input(self.recipe, nontrivial=any(e is not None for e in self.view))

    @staticmethod
    def from_recipe(r):
        return Case(r['kind'], r['elements'], r['steps'], r.get('dtype', 'float64'))


def case(kind, rng, derive=True, **kw):
    if derive and 'n' not in kw and rng.random() < 0.15:
        kw = dict(kw, n=rng.choice([9, 12, 17, 20, 24]))     # long enough for slices starting at array offset 8, 16
    els = elements(kind, rng, **kw)
    steps = random_steps(rng, len(els)) if derive else []
    return Case(kind, els, steps, pick_dtype(rng, els))


def box(rng, positive=True):
    x0, x1 = coord(rng, -8, 12), coord(rng, -8, 12)
    y0, y1 = coord(rng, -8, 12), coord(rng, -8, 12)
    if positive:
        if x0 == x1:
            x1 += 1.0
        if y0 == y1:
            y1 += 1.0
    return (x0, y0, x1, y1)
