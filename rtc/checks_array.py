"""Run-time checked contracts of the geometry-array glue layer (bounded stand-in; reference = exact oracle
over the abstract view, or the proved kernels applied to a freshly built element)."""
import math
import pickle

import numpy as np

from . import gen, oracle
from .registry import check, V


def nan_eq(a, b):
    a, b = float(a), float(b)
    return (math.isnan(a) and math.isnan(b)) or a == b


def region_of(view, kind=None):
    """coarse description of the input class (used in violation keys, so that known findings are specific)"""
    tags = []
    if any(v is None for v in view):
        tags.append('has-missing')
    if any(v is not None and len(oracle.flat_coords(kind, v)) == 0 for v in view) if kind else False:
        tags.append('has-empty')
    return '+'.join(tags) or 'plain'


# ------------------------------------------------------------------ C13

@check(('C13', 'C17', 'C16'), 'array.bounds')
def c_bounds(rng):
    kind = rng.choice(gen.KINDS)
    cs = gen.case(kind, rng, allow_nonfinite=True)
    out = []
    try:
        got = cs.arr.bounds
    except Exception as e:
        return [V(f'array.bounds/{kind_class(kind)}/raises-{type(e).__name__}/{region_of(cs.view, kind)}',
                  f'{type(e).__name__}: {e}', cs.recipe)]
    if got.shape != (len(cs.view), 4):
        return [V(f'array.bounds/{kind_class(kind)}/shape', f'shape {got.shape} for {len(cs.view)} rows', cs.recipe)]
    for i, el in enumerate(cs.view):
        exp = oracle.bounds(kind, el)
        if not all(nan_eq(a, b) for a, b in zip(got[i], exp)):
            out.append(V(f'array.bounds/{kind_class(kind)}/row/{"missing" if el is None else "present"}',
                         f'row {i}: got {list(got[i])} expected {exp}', cs.recipe))
            break
    return out


def kind_class(kind):
    return 'fixed' if kind == 'point' else 'list'


@check(('C13', 'C17', 'C16'), 'array.total_bounds')
def c_total_bounds(rng):
    kind = rng.choice(gen.KINDS)
    cs = gen.case(kind, rng, allow_nonfinite=True)
    exp = oracle.total_bounds(kind, cs.view)
    out = []
    got = cs.arr.total_bounds
    if not all(nan_eq(a, b) for a, b in zip(got, exp)):
        out.append(V(f'array.total_bounds/{kind_class(kind)}/{region_of(cs.view)}', f'got {tuple(got)} expected {exp}', cs.recipe))
    gx, gy = cs.arr.total_bounds_x, cs.arr.total_bounds_y
    if not (nan_eq(gx[0], exp[0]) and nan_eq(gx[1], exp[2]) and nan_eq(gy[0], exp[1]) and nan_eq(gy[1], exp[3])):
        out.append(V(f'array.total_bounds_xy/{kind_class(kind)}/{region_of(cs.view)}', f'got {gx} {gy} expected {exp}', cs.recipe))
    return out


@check(('C13', 'C03', 'C17'), 'series.bounds-and-sindex')
def c_series_bounds(rng):
    import spatialpandas as sp
    kind = rng.choice(gen.KINDS)
    cs = gen.case(kind, rng)
    out = []
    try:
        s = sp.GeoSeries(cs.arr, index=[10 + 3 * i for i in range(len(cs.view))])
        b = s.bounds
        exp = [oracle.bounds(kind, el) for el in cs.view]
        ok = list(b.columns) == ['x0', 'y0', 'x1', 'y1'] and list(b.index) == list(s.index) and all(
            all(nan_eq(a, c) for a, c in zip(row, e)) for row, e in zip(b.values, exp))
        if not ok:
            out.append(V(f'series.bounds/{kind_class(kind)}/{region_of(cs.view)}', f'got {b.values.tolist()} expected {exp}', cs.recipe))
        tb = oracle.total_bounds(kind, cs.view)
        if not all(nan_eq(a, c) for a, c in zip(s.total_bounds, tb)):
            out.append(V(f'series.total_bounds/{kind_class(kind)}/{region_of(cs.view)}', f'got {s.total_bounds} expected {tb}', cs.recipe))
        if len(cs.view):
            stb = cs.arr.sindex.total_bounds
            if not all(nan_eq(a, c) for a, c in zip(stb, tb)):
                out.append(V(f'sindex.total_bounds/{kind_class(kind)}/{region_of(cs.view)}', f'got {stb} expected {tb}', cs.recipe))
            # ... for every page size (several pages: pages that hold only missing / empty rows)
            a2 = cs.arr.copy()
            ps = rng.choice([1, 2, 3])
            a2.build_sindex(page_size=ps, p=rng.choice([1, 4, 10]))
            stb2 = a2.sindex.total_bounds
            if not all(nan_eq(a, c) for a, c in zip(stb2, tb)):
                out.append(V(f'sindex.total_bounds-small-pages/{kind_class(kind)}/{region_of(cs.view)}', f'page_size {ps}: got {stb2} expected {tb}', cs.recipe))
            # the index built by the array / series answers in terms of ROW POSITIONS of that array, whatever rows
            # are missing or empty
            bx = oracle.norm_box(gen.box(rng))
            hit, cov = [], []
            for i, e in enumerate(exp):
                if any(math.isnan(c) for c in e):
                    continue
                if e[0] <= bx[2] and e[2] >= bx[0] and e[1] <= bx[3] and e[3] >= bx[1]:
                    hit.append(i)
                    if e[0] >= bx[0] and e[2] <= bx[2] and e[1] >= bx[1] and e[3] <= bx[3]:
                        cov.append(i)
            for src, sx in (('array', cs.arr.sindex), ('series', s.sindex)):
                got = sorted(int(i) for i in sx.intersects(bx))
                if got != hit:
                    out.append(V(f'sindex.intersects-row-positions/{src}/{kind_class(kind)}/{region_of(cs.view)}',
                                 f'box {bx}: got {got} expected {hit}', dict(cs.recipe, box=bx)))
                c_, o_ = sx.covers_overlaps(bx)
                gc, go = sorted(int(i) for i in c_), sorted(int(i) for i in o_)
                if sorted(gc + go) != hit or not set(gc) <= set(cov):
                    out.append(V(f'sindex.covers_overlaps-row-positions/{src}/{kind_class(kind)}/{region_of(cs.view)}',
                                 f'box {bx}: covers {gc} overlaps {go}; intersecting {hit}, fully inside {cov}', dict(cs.recipe, box=bx)))
    except Exception as e:
        out.append(V(f'series.bounds/{kind_class(kind)}/raises-{type(e).__name__}/{region_of(cs.view)}', f'{type(e).__name__}: {e}', cs.recipe))
    return out


@check(('C16', 'C14', 'C01', 'C08', 'C13'), 'series.wrappers-keep-index')
def c_series_wrappers(rng):
    """every GeoSeries-level quantity is the array-level quantity carried by the labels of the series it was computed on -
    also for a series obtained by row selection (non-default, non-monotonic labels)"""
    import spatialpandas as sp
    kind = rng.choice(gen.KINDS)
    cs = gen.case(kind, rng, derive=False, n=rng.choice([3, 5, 6]), p_missing=0.15)
    n = len(cs.view)
    s0 = sp.GeoSeries(cs.arr, index=[f'r{i}' for i in range(n)] if rng.random() < 0.5 else list(range(n)))
    how = rng.choice(['source', 'iloc-list', 'reversed', 'mask', 'tail'])
    if how == 'iloc-list':
        pos = [rng.randrange(n) for _ in range(rng.randint(1, n))]
        s = s0.iloc[pos]
    elif how == 'reversed':
        pos = list(range(n))[::-1]
        s = s0.iloc[::-1]
    elif how == 'mask':
        m = [rng.random() < 0.6 for _ in range(n)]
        pos = [i for i in range(n) if m[i]]
        s = s0[np.array(m)]
    elif how == 'tail':
        k = rng.randint(1, n)
        pos = list(range(n - k, n))
        s = s0.iloc[n - k:]
    else:
        pos = list(range(n))
        s = s0
    labels = [s0.index[i] for i in pos]
    view = [cs.view[i] for i in pos]
    bx = gen.box(rng)
    eff = oracle.norm_box(bx)
    out = []
    recipe = dict(cs.recipe, derivation=how, positions=pos, box=bx)

    def chk(name, ser, exp, eq):
        if list(ser.index) != labels:
            out.append(V(f'series.{name}/index-labels/{how}', f'{list(ser.index)} expected {labels}', recipe))
        elif not all(eq(a, b) for a, b in zip(list(ser.values), exp)):
            out.append(V(f'series.{name}/values/{how}', f'{list(ser.values)} expected {exp}', recipe))
    try:
        finite = all(math.isfinite(c) for el in view if el is not None for c in oracle.flat_coords(kind, el))
        if finite:
            chk('intersects_bounds', s.intersects_bounds(bx), [bool(oracle.intersects_bounds(kind, el, eff)) for el in view],
                lambda a, b: bool(a) == b)
        chk('length', s.length, [oracle.length(kind, el) for el in view], close)
        if kind in ('polygon', 'multipolygon'):
            chk('area', s.area, [oracle.area(kind, el) for el in view], lambda a, b: close(a, b, rel=0))
        b = s.bounds
        if list(b.index) != labels:
            out.append(V(f'series.bounds/index-labels/{how}', f'{list(b.index)}', recipe))
        if kind == 'point':
            skind = rng.choice(['polygon', 'multipolygon', 'line', 'multipoint', 'point'])
            shape_el = gen.element(skind, rng)
            S = gen.scalar_cls_of(skind)
            shape = S(np.asarray(shape_el, dtype='float64')) if skind == 'point' else S(shape_el)
            expi = [oracle.point_intersects(p_, skind, shape_el) for p_ in view]
            if all(e is not None for e in expi):
                chk('intersects', s.intersects(shape), expi, lambda a, b: bool(a) == bool(b))
        if len(view) and not any(math.isnan(v) for v in oracle.total_bounds(kind, view)):
            d = s.hilbert_distance(p=3)
            ref = s.array.hilbert_distance(p=3)
            if list(d.index) != labels or [int(x) for x in d.values] != [int(x) for x in ref]:
                out.append(V(f'series.hilbert_distance/index-or-values/{how}', f'{list(d.index)} {list(d.values)} vs {list(ref)}', recipe))
    except Exception as e:
        out.append(V(f'series.wrappers/raises-{type(e).__name__}/{how}', f'{e}', recipe))
    return out


# ------------------------------------------------------------------ C14

def close(a, b, rel=1e-12):
    a, b = float(a), float(b)
    if math.isnan(a) or math.isnan(b):
        return math.isnan(a) and math.isnan(b)
    return a == b or abs(a - b) <= rel * max(abs(a), abs(b), 1e-300)


@check(('C14', 'C17', 'C16'), 'array.length-area')
def c_measures(rng):
    kind = rng.choice(gen.KINDS)
    cs = gen.case(kind, rng, p_empty=0.0 if kind in ('line', 'ring', 'multiline', 'polygon', 'multipolygon') else 0.1,
                  allow_nonfinite=(kind in ('line', 'multiline')))
    if rng.random() < 0.25 and all(math.isfinite(c) and float(c).is_integer() for c in gen._coords(cs.recipe['elements'])):
        # large integer coordinates (still exact in every subtype): areas beyond 2**24, which float32 cannot hold exactly
        els = gen.scaled(cs.recipe['elements'], 1025.0)
        cs = gen.Case(kind, els, cs.recipe['steps'], 'float32' if rng.random() < 0.5 else gen.pick_dtype(rng, els))
    out = []
    L, A = cs.arr.length, cs.arr.area
    for i, el in enumerate(cs.view):
        el_ = el
        if not close(L[i], oracle.length(kind, el_)):
            out.append(V(f'array.length/{kind}/{"missing" if el is None else "present"}',
                         f'row {i}: got {L[i]} expected {oracle.length(kind, el_)}', cs.recipe))
            break
        if kind in ('polygon', 'multipolygon') or el is None or True:
            ea = oracle.area(kind, el_)
            if kind in ('point', 'multipoint', 'line', 'ring', 'multiline'):
                ea = 0.0 if True else ea      # area of non-polygons is 0 (also for missing rows: arrays of zeros)
                if el is None:
                    continue
            if not close(A[i], ea, rel=0):
                out.append(V(f'array.area/{kind}/{"missing" if el is None else "present"}',
                             f'row {i}: got {A[i]} expected {ea}', cs.recipe))
                break
    # scalar forms agree with the array forms
    for i, el in enumerate(cs.view):
        if el is None:
            continue
        sc = cs.arr[i]
        if not close(sc.length, L[i]) or not close(sc.area, A[i], rel=0):
            out.append(V(f'scalar-vs-array.measure/{kind}', f'row {i}: scalar {sc.length},{sc.area} array {L[i]},{A[i]}', cs.recipe))
            break
    return out


@check(('C14', 'C17'), 'array.boundary')
def c_boundary(rng):
    kind = rng.choice(['polygon', 'multipolygon'])
    cs = gen.case(kind, rng, p_empty=0.0)
    out = []
    b = cs.arr.boundary
    exp = [None if el is None else oracle.parts(kind, el) for el in cs.view]
    got = [None if x is None else [list(l) for l in x.data.as_py()] for x in b]
    if got != exp:
        bad = next(i for i, (g, e) in enumerate(zip(got, exp)) if g != e) if len(got) == len(exp) else -1
        out.append(V(f'array.boundary/{kind}/{"missing" if bad >= 0 and exp[bad] is None else "present"}',
                     f'row {bad}: got {got[bad] if bad >= 0 else len(got)} expected {exp[bad] if bad >= 0 else len(exp)}', cs.recipe))
    else:
        Lb, Lp = b.length, cs.arr.length
        if not all(close(x, y) for x, y in zip(Lb, Lp)):
            out.append(V(f'array.boundary-length/{kind}', f'{Lb} vs {Lp}', cs.recipe))
    return out


# ------------------------------------------------------------------ C15

def ring_dir(r):
    a = oracle.ring_area2(r)
    return 0 if a == 0 else (1 if a > 0 else -1)


@check(('C15', 'C17'), 'array.oriented')
def c_oriented(rng):
    kind = rng.choice(['polygon', 'multipolygon'])
    if rng.random() < 0.5:
        # a slice that starts after the first element: non-zero array offset, buffers shared with the parent
        els = gen.elements(kind, rng, n=rng.choice([2, 3, 4, 5]), p_empty=0.1)
        a = rng.randint(1, len(els) - 1)
        steps = [['slice', a, rng.randint(a, len(els)), None]]
    else:
        els = gen.elements(kind, rng, p_empty=0.15)
        steps = gen.random_steps(rng, len(els))
    if rng.random() < 0.3 and kind == 'polygon':
        # the buffer ends with ring-less polygons (missing / empty) right after a polygon with a hole, so that the last
        # ring of the whole buffer is a hole
        withhole = [e for e in els if e and len(e) >= 2]
        if not withhole:
            withhole = [gen.polygon(rng) for _ in range(3)]
            withhole = [e for e in withhole if len(e) >= 2][:1]
        if withhole:
            els = els + [rng.choice(withhole)] + [rng.choice([None, []]) for _ in range(rng.randint(1, 2))]
            steps = []
    if rng.random() < 0.3:
        # very small / large coordinates (a power-of-two factor, exact): orientation is a matter of sign, not size
        els = gen.scaled(els, rng.choice(gen.SCALES))
    if kind == 'multipolygon' and rng.random() < 0.3:
        # as many rings as parts over the whole buffer: every hole balanced by a part without rings
        holes = sum(len(p) - 1 for el in els if el for p in el if p)
        live = [el for el in els if el is not None]
        for _ in range(holes):
            if live:
                el = rng.choice(live)
                el.insert(rng.randint(0, len(el)), [])
    cs = gen.Case(kind, els, steps)
    before = pickle.dumps(cs.arr.data.to_pylist())
    out = []
    try:
        o = cs.arr.oriented()
    except Exception as e:
        return [V(f'array.oriented/{kind}/raises-{type(e).__name__}', f'{e}', cs.recipe)]
    if pickle.dumps(cs.arr.data.to_pylist()) != before:
        out.append(V(f'array.oriented/{kind}/input-modified', '', cs.recipe))
    got = o.data.to_pylist()
    if len(got) != len(cs.view):
        return out + [V(f'array.oriented/{kind}/length', f'{len(got)} vs {len(cs.view)}', cs.recipe)]
    for i, (g, el) in enumerate(zip(got, cs.view)):
        if (g is None) != (el is None):
            out.append(V(f'array.oriented/{kind}/missingness', f'row {i}', cs.recipe))
            break
        if el is None:
            continue
        polys_in = [el] if kind == 'polygon' else el
        polys_out = [g] if kind == 'polygon' else g
        if [len(p) for p in polys_in] != [len(p) for p in polys_out]:
            out.append(V(f'array.oriented/{kind}/structure', f'row {i}', cs.recipe))
            break
        for pin, pout in zip(polys_in, polys_out):
            for ri, (rin, rout) in enumerate(zip(pin, pout)):
                rin = [float(v) for v in rin]
                rev = [c for p in list(zip(rin[0::2], rin[1::2]))[::-1] for c in p]
                if list(rout) != rin and list(rout) != rev:
                    out.append(V(f'array.oriented/{kind}/ring-not-same-or-reversed', f'row {i} ring {ri}: {rout} from {rin}', cs.recipe))
                    return out
                d = ring_dir(rout)
                want = 1 if ri == 0 else -1
                if d != 0 and d != want:
                    out.append(V(f'array.oriented/{kind}/direction', f'row {i} ring {ri} dir {d}', cs.recipe))
                    return out
    # intersection results are the same before and after (valid polygons: holes wound opposite to their shell, which
    # is what the generator builds; with a hole wound like its shell the non-zero winding rule itself depends on the
    # orientation, so nothing is compared there)
    if rng.random() < 0.3:
        # a funnel whose neck passes through a small box: no vertex in the box, no box corner in the polygon, the
        # polygon sticks out of the box on every side - only the edge-against-box-side tests can see the meeting,
        # and they must see it whichever way round the ring is stored
        ox, oy = float(rng.randint(-3, 3)), float(rng.randint(-3, 3))
        ring = [0.0, -5.0, 2.0, 5.0, 10.0, 6.0, -10.0, 6.0, -2.0, 5.0, 0.0, -5.0]
        if rng.random() < 0.5:
            ring = [c for p_ in list(zip(ring[0::2], ring[1::2]))[::-1] for c in p_]
        if rng.random() < 0.5:
            ring = [c for x_, y_ in zip(ring[0::2], ring[1::2]) for c in (y_, x_)]        # transposed: horizontal funnel
            fb = (-1.0, -1.5, 1.0, 1.5)
        else:
            fb = (-1.5, -1.0, 1.5, 1.0)
        ring = [c + (ox if k % 2 == 0 else oy) for k, c in enumerate(ring)]
        fb = (fb[0] + ox, fb[1] + oy, fb[2] + ox, fb[3] + oy)
        fel = [ring] if kind == 'polygon' else [[ring]]
        fcs = gen.Case(kind, [fel], [], gen.pick_dtype(rng, [fel]))
        try:
            fo = fcs.arr.oriented()
            b_, a_ = bool(fcs.arr.intersects_bounds(fb)[0]), bool(fo.intersects_bounds(fb)[0])
            e_ = bool(oracle.intersects_bounds(kind, fel, oracle.norm_box(fb)))
            if b_ != a_ or a_ != e_:
                out.append(V(f'array.oriented/{kind}/intersection-result-changed', f'funnel, box {fb}: before {b_} after {a_} '
                             f'expected {e_}', dict(fcs.recipe, box=fb)))
        except Exception as e:
            out.append(V(f'array.oriented/{kind}/intersects-after-oriented-raises-{type(e).__name__}', f'{e}', fcs.recipe))
    try:
        bx = gen.box(rng)
        if rng.random() < 0.5:
            # a small box around the centre of some ring's bounding box: inside the solid part or inside a hole
            rings = [r for el in cs.view if el is not None for r in oracle.parts(kind, el) if len(r) >= 6]
            if rings:
                r = rng.choice(rings)
                cx, cy = (min(r[0::2]) + max(r[0::2])) / 2, (min(r[1::2]) + max(r[1::2])) / 2
                bx = (cx - 0.25, cy - 0.25, cx + 0.25, cy + 0.25)
        eff = oracle.norm_box(bx)
        before_, after_ = [bool(x) for x in cs.arr.intersects_bounds(bx)], [bool(x) for x in o.intersects_bounds(bx)]
        expb = [bool(oracle.intersects_bounds(kind, el, eff)) for el in cs.view]
        if before_ != after_ or after_ != expb:
            out.append(V(f'array.oriented/{kind}/intersection-result-changed', f'box {bx}: before {before_} after {after_} expected {expb}', dict(cs.recipe, box=bx)))
    except Exception as e:
        out.append(V(f'array.oriented/{kind}/intersects-after-oriented-raises-{type(e).__name__}', f'{e}', cs.recipe))
    # idempotent
    try:
        oo = o.oriented()
        if oo.data.to_pylist() != got:
            zero = any(ring_dir(r) == 0 and len(r) >= 6 for el in cs.view if el is not None
                       for r in oracle.parts(kind, el))
            out.append(V(f'array.oriented/{kind}/not-idempotent/{"zero-area-ring" if zero else "other"}', '', cs.recipe))
    except Exception as e:
        out.append(V(f'array.oriented/{kind}/second-call-raises-{type(e).__name__}', f'{e}', cs.recipe))
    return out


@check(('C15', 'C14'), 'array.oriented-thin-rings')
def c_oriented_thin(rng):
    """thin triangles far from the origin with integer coordinates (exact in float32, int32 and float64): the shoelace
    products need up to 41 bits and largely cancel, so the direction and the area are right only if the arithmetic
    is done in float64; the expected direction and area come from exact integer arithmetic"""
    kind = rng.choice(['polygon', 'multipolygon'])
    dtype = rng.choice(['float32', 'float32', 'int32', 'float64'])
    els, exact = [], []
    for _ in range(rng.randint(1, 4)):
        ax, ay = rng.randint(500000, 1200000), rng.randint(300000, 1000000)
        m = rng.choice([1000, 20000, 200000])
        dx, dy = rng.randint(-m, m), rng.randint(-m, m)
        ex, ey = rng.choice([(1, 0), (0, 1), (-1, 2), (3, -1), (0, -2), (40, 25)])
        if dx * ey - dy * ex == 0:
            dx += 1
            if dx * ey - dy * ex == 0:
                dy += 1
        ring = [ax, ay, ax + dx, ay + dy, ax - dx + ex, ay - dy + ey, ax, ay]
        if rng.random() < 0.5:
            ring = [c for p_ in list(zip(ring[0::2], ring[1::2]))[::-1] for c in p_]
        ring = [float(c) for c in ring]
        poly = [ring]
        els.append(poly if kind == 'polygon' else [poly])
        exact.append(abs(oracle.ring_area2(ring)) / 2)
    arr = gen.build(kind, els, dtype)
    recipe = {'kind': kind, 'elements': els, 'steps': [], 'dtype': dtype}
    try:
        o = arr.oriented()
        got = o.data.to_pylist()
        A = o.area
    except Exception as e:
        return [V(f'array.oriented-thin-rings/raises-{type(e).__name__}', f'{e}', recipe)]
    for i, (g, el) in enumerate(zip(got, els)):
        rin = el[0] if kind == 'polygon' else el[0][0]
        rout = [float(v) for v in (g[0] if kind == 'polygon' else g[0][0])]
        rev = [c for p_ in list(zip(rin[0::2], rin[1::2]))[::-1] for c in p_]
        if rout != rin and rout != rev:
            return [V(f'array.oriented-thin-rings/ring-not-same-or-reversed/{dtype}', f'row {i}: {rout} from {rin}', recipe)]
        if ring_dir(rout) != 1:
            return [V(f'array.oriented-thin-rings/shell-not-counter-clockwise/{dtype}', f'row {i}: {rout} (exact doubled area '
                      f'{oracle.ring_area2(rout)})', recipe)]
        if float(A[i]) != float(exact[i]):
            return [V(f'array.oriented-thin-rings/area/{dtype}', f'row {i}: area {A[i]} exact {float(exact[i])}', recipe)]
    return []


# ------------------------------------------------------------------ C01

def _boxes_for(kind, cs, rng):
    """query boxes for one array: a random one plus boxes aimed at the decisive positions"""
    boxes = [gen.box(rng, positive=(kind not in ('point', 'multipoint')) or rng.random() < 0.7)]
    view = cs.view
    fc = [c for el in view if el is not None for c in oracle.flat_coords(kind, el) if math.isfinite(c)]
    if len(fc) >= 2:
        # through a vertex (ties)
        k = rng.randrange(len(fc) // 2)
        b0 = boxes[0]
        boxes.append((fc[2 * k], fc[2 * k + 1], b0[2] if b0[2] != fc[2 * k] else b0[2] + 1, b0[3] if b0[3] != fc[2 * k + 1] else b0[3] + 1))
        # corners strictly between coordinates (the box is a float box whatever the coordinate subtype)
        k = rng.randrange(len(fc) // 2)
        vx, vy = fc[2 * k], fc[2 * k + 1]
        sx, sy = rng.choice([(0.5, -1.0), (-2.5, -1.0), (-1.0, 0.5), (-1.0, -2.5), (0.25, 0.25)])
        boxes.append((vx + sx, vy + sy, vx + sx + 2.0, vy + sy + 2.0))
    if kind in ('polygon', 'multipolygon'):
        rings = [r for el in view if el is not None for r in oracle.parts(kind, el) if len(r) >= 6]
        if rings:
            # around the centre of a ring's bounding box: strictly inside the solid part or inside a hole
            r = rng.choice(rings)
            cxr, cyr = (min(r[0::2]) + max(r[0::2])) / 2, (min(r[1::2]) + max(r[1::2])) / 2
            dx, dy = rng.choice([0.25, 0.5, 0.75]), rng.choice([0.25, 0.5])
            boxes.append((cxr - dx, cyr - dy, cxr + dx, cyr + dy))
        polys = [p for el in view if el is not None for p in ([el] if kind == 'polygon' else el) if len(p) >= 2]
        for _ in range(2):
            if polys:
                # on the straight line from the end of one ring to the start of the next ring of the same polygon (no such
                # segment exists: rings are separate closed curves)
                p_ = rng.choice(polys)
                k = rng.randrange(len(p_) - 1)
                if len(p_[k]) >= 2 and len(p_[k + 1]) >= 2:
                    ax, ay, bx_, by_ = p_[k][-2], p_[k][-1], p_[k + 1][0], p_[k + 1][1]
                    t = rng.choice([0.25, 0.5, 0.75])
                    mx, my = ax + t * (bx_ - ax), ay + t * (by_ - ay)
                    d_ = rng.choice([0.125, 0.25])
                    boxes.append((mx - d_, my - d_, mx + d_, my + d_))
    return boxes


@check(('C01', 'C17', 'C16'), 'array.intersects_bounds')
def c_intersects_bounds(rng):
    kind = rng.choice(gen.KINDS)
    cs = gen.case(kind, rng)
    boxes = _boxes_for(kind, cs, rng)
    if kind in ('multipoint', 'multiline', 'multipolygon') and rng.random() < 0.35:
        # an element made of two parts far apart, and a band through the gap that spans the element's whole extent
        # in the other direction: the element's bounding box lies inside the band's slab, yet nothing is in the band
        x0, y0 = float(rng.randint(-4, 4)), float(rng.randint(-4, 4))
        w, gap = float(rng.randint(1, 3)), float(rng.randint(2, 4))
        horizontal = rng.random() < 0.5

        def part(dx, dy):
            ax, ay = x0 + dx, y0 + dy
            if kind == 'multipoint':
                return [ax, ay, ax + w, ay]
            if kind == 'multiline':
                return [ax, ay, ax + w, ay] if horizontal else [ax, ay, ax, ay + w]
            return [gen.rect_ring(ax, ay, ax + w, ay + 1.0)]
        far = (0.0, gap + 1.0) if horizontal else (gap + w, 0.0)
        if kind == 'multipoint':
            el = part(0.0, 0.0) + part(*far)
        else:
            el = [part(0.0, 0.0), part(*far)]
        els = list(cs.recipe['elements']) + [el]
        cs = gen.Case(kind, els, [], gen.pick_dtype(rng, els))
        fc = oracle.flat_coords(kind, el)
        lo_x, hi_x, lo_y, hi_y = min(fc[0::2]), max(fc[0::2]), min(fc[1::2]), max(fc[1::2])
        if horizontal:
            band = (lo_x - 1.0, y0 + 1.25, hi_x + 1.0, y0 + gap + 0.75)
        else:
            band = (x0 + w + 0.25, lo_y - 1.0, x0 + gap + w - 0.25, hi_y + 1.0)
        boxes = [band] + boxes[:2]
    for bx in boxes:
        out = _check_box(kind, cs, bx, rng)
        if out:
            return out
    return []


def _check_box(kind, cs, bx, rng):
    out = []
    exp = [oracle.intersects_bounds(kind, el, bx) for el in cs.view]
    got = cs.arr.intersects_bounds(bx)
    if list(got) != exp:
        i = next(k for k in range(len(exp)) if bool(got[k]) != exp[k])
        out.append(V(f'array.intersects_bounds/{kind}/{"missing" if cs.view[i] is None else "present"}',
                     f'box {bx} row {i} element {cs.view[i]}: got {bool(got[i])} expected {exp[i]}', cs.recipe, box=bx))
        return out
    rev = (bx[2], bx[3], bx[0], bx[1])
    if list(cs.arr.intersects_bounds(rev)) != exp:
        out.append(V(f'array.intersects_bounds/{kind}/reversed-corners', f'box {rev}', cs.recipe, box=rev))
    if len(cs.view):
        inds = np.array([rng.randrange(len(cs.view)) for _ in range(rng.randint(0, 5))], dtype='int64')
        gi = cs.arr.intersects_bounds(bx, inds)
        if list(gi) != [exp[i] for i in inds]:
            out.append(V(f'array.intersects_bounds/{kind}/inds-form', f'box {bx} inds {inds.tolist()}', cs.recipe, box=bx))
        for i, el in enumerate(cs.view):
            if el is None:
                continue
            try:
                sc = cs.arr[i].intersects_bounds(bx)
            except Exception as e:
                empty = len(oracle.flat_coords(kind, el)) == 0
                out.append(V(f'scalar.intersects_bounds/raises-{type(e).__name__}/{kind}/{"empty" if empty else "non-empty"}',
                             f'element {el}: {e}', cs.recipe, box=bx))
                break
            if bool(sc) != exp[i]:
                out.append(V(f'scalar.intersects_bounds/{kind}', f'box {bx} row {i} element {el}: scalar {bool(sc)} expected {exp[i]}',
                             cs.recipe, box=bx))
                break
    return out


# ------------------------------------------------------------------ C02

@check(('C02', 'C17', 'C16', 'C05'), 'pointarray.intersects')
def c_point_intersects(rng):
    pts = gen.case('point', rng, p_missing=0.2)
    skind = rng.choice(gen.KINDS)
    shape_el = gen.element(skind, rng)
    S = gen.scalar_cls_of(skind)
    shape = S(np.asarray(shape_el, dtype='float64')) if skind == 'point' else S(shape_el)
    # move some points onto vertices / segment interiors of the shape to hit the measure-zero cases
    view = list(pts.view)
    fc = oracle.flat_coords(skind, shape_el)
    out = []
    exp = [oracle.point_intersects(p, skind, shape_el) for p in view]
    got = pts.arr.intersects(shape)
    for i, p in enumerate(view):
        if exp[i] is None:
            continue
        if bool(got[i]) != exp[i]:
            out.append(V(f'pointarray.intersects/{skind}/{"missing-point" if p is None else "present"}',
                         f'point {p} shape {shape_el}: got {bool(got[i])} expected {exp[i]}', pts.recipe, shape=[skind, shape_el]))
            return out
    if len(view):
        inds = np.array([rng.randrange(len(view)) for _ in range(rng.randint(0, 5))], dtype='int64')
        if rng.random() < 0.4:
            # every position once, in another order (what a spatial index hands over when all rows are candidates)
            perm = list(range(len(view)))
            rng.shuffle(perm)
            inds = np.array(perm, dtype='int64')
        gi = pts.arr.intersects(shape, inds)
        if [bool(x) for x in gi] != [bool(got[i]) for i in inds]:
            out.append(V(f'pointarray.intersects/{skind}/inds-form', f'inds {inds.tolist()}', pts.recipe, shape=[skind, shape_el]))
        for i, p in enumerate(view):
            if p is None:
                continue
            sc = pts.arr[i].intersects(shape)
            if bool(sc) != bool(got[i]):
                out.append(V(f'point-scalar-vs-array.intersects/{skind}', f'point {p} shape {shape_el}: scalar {bool(sc)} array {bool(got[i])}',
                             pts.recipe, shape=[skind, shape_el]))
                break
    return out


@check(('C02', 'C05'), 'pointarray.intersects-special-positions')
def c_point_intersects_special(rng):
    """points placed exactly on vertices, on segment interiors, on the horizontal ray through a vertex"""
    skind = rng.choice(['line', 'multiline', 'polygon', 'multipolygon', 'multipoint'])
    shape_el = gen.element(skind, rng)
    fc = oracle.flat_coords(skind, shape_el)
    if len(fc) < 4:
        return []
    vs = list(zip(fc[0::2], fc[1::2]))
    cand = []
    for (x0, y0), (x1, y1) in zip(vs, vs[1:]):
        cand += [[x0, y0], [(x0 + x1) / 2, (y0 + y1) / 2], [x0 - 2.0, y0], [x0 - 1.0, y1], [2 * x1 - x0, 2 * y1 - y0]]
    rng.shuffle(cand)
    cand = cand[:6]
    S = gen.scalar_cls_of(skind)
    shape = S(shape_el)
    arr = gen.build('point', cand)
    got = arr.intersects(shape)
    out = []
    for p, g in zip(cand, got):
        e = oracle.point_intersects(p, skind, shape_el)
        if e is None:
            e = oracle.code_rule_point_in_polygon(p, skind, shape_el)
            key = 'boundary-rule'
        else:
            key = 'exact'
        if bool(g) != e:
            out.append(V(f'pointarray.intersects-special/{skind}/{key}', f'point {p} shape {shape_el}: got {bool(g)} expected {e}',
                         {'kind': 'point', 'elements': cand, 'steps': []}, shape=[skind, shape_el]))
            break
    # the scalar form (Point.intersects) and the array form restricted to positions give the same answers
    if not out:
        for i, (p, g) in enumerate(zip(cand, got)):
            sc = arr[i].intersects(shape)
            if bool(sc) != bool(g):
                out.append(V(f'pointarray.intersects-special/{skind}/scalar-form', f'point {p} shape {shape_el}: scalar {bool(sc)} array {bool(g)}',
                             {'kind': 'point', 'elements': cand, 'steps': []}, shape=[skind, shape_el]))
                break
        inds = np.array([rng.randrange(len(cand)) for _ in range(rng.randint(1, 4))], dtype='int64')
        if rng.random() < 0.5:
            perm = list(range(len(cand)))
            rng.shuffle(perm)
            inds = np.array(perm, dtype='int64')
        gi = arr.intersects(shape, inds)
        if [bool(x) for x in gi] != [bool(got[i]) for i in inds]:
            out.append(V(f'pointarray.intersects-special/{skind}/inds-form', f'inds {inds.tolist()}',
                         {'kind': 'point', 'elements': cand, 'steps': []}, shape=[skind, shape_el]))
    return out


@check(('C02',), 'point.intersects-mixed-subtypes')
def c_point_intersects_mixed(rng):
    """point against point where the two sides store their coordinates differently (float64 / float32 / int64 / int32,
    or +0.0 against -0.0): intersection is a matter of coordinate values, in the scalar, array and positions forms"""
    grid = [[float(x), float(y)] for x in (-1, 0, 2) for y in (0, 1)]
    pts = [list(rng.choice(grid)) for _ in range(rng.randint(1, 5))]
    d1 = rng.choice(['float64', 'float32', 'int64', 'int32'])
    d2 = rng.choice(['float64', 'float32', 'int64', 'int32'])
    q = list(rng.choice(pts)) if rng.random() < 0.7 else list(rng.choice(grid))
    if d2.startswith('float') and rng.random() < 0.4:
        q = [-0.0 if c == 0.0 else c for c in q]         # the same number, another bit pattern
    arr = gen.build('point', pts, d1)
    shape = gen.scalar_cls_of('point')(np.asarray(q, dtype=d2))
    exp = [p[0] == q[0] and p[1] == q[1] for p in pts]
    recipe = {'kind': 'point', 'elements': pts, 'steps': [], 'dtype': d1, 'query': q, 'query_dtype': d2}
    tag = 'same-subtype' if d1 == d2 else 'mixed'
    got = [bool(g) for g in arr.intersects(shape)]
    if got != exp:
        return [V(f'point.intersects-mixed/{tag}/array-form', f'{d1} points {pts} against {d2} point {q}: got {got} expected {exp}', recipe)]
    perm = list(range(len(pts)))
    rng.shuffle(perm)
    gi = [bool(g) for g in arr.intersects(shape, np.array(perm, dtype='int64'))]
    if gi != [exp[i] for i in perm]:
        return [V(f'point.intersects-mixed/{tag}/inds-form', f'{d1} points {pts} against {d2} point {q} inds {perm}', recipe)]
    for i, p in enumerate(pts):
        sc = bool(arr[i].intersects(shape))
        if sc != exp[i]:
            return [V(f'point.intersects-mixed/{tag}/scalar-form', f'{d1} point {p} against {d2} point {q}: scalar {sc} expected {exp[i]}', recipe)]
        back = bool(shape.intersects(arr[i]))
        if back != exp[i]:
            return [V(f'point.intersects-mixed/{tag}/scalar-form-swapped', f'{d2} point {q} against {d1} point {p}: scalar {back} expected {exp[i]}', recipe)]
    return []


@check(('C02', 'C05'), 'pointarray.intersects-near-points')
def c_point_intersects_near(rng):
    """a point or multipoint shape made of points equal to, or a hair / a metre away from, points of the array:
    equality of points is exact, at every magnitude"""
    import math
    base = rng.choice([0.0, 1.0, 2.0e6, -6.0e6, 2.0 ** -30, 1024.0])
    step = rng.choice([1.0, 2.0 ** -30, 2.0 ** -20]) if abs(base) < 1e5 else rng.choice([1.0, 2.0, 2.0 ** -10])
    pts = [[base + step * rng.randint(-2, 2), -base + step * rng.randint(-2, 2)] for _ in range(rng.randint(1, 6))]
    arr = gen.build('point', pts)

    def near(p):
        x, y = p
        r = rng.random()
        if r < 0.3:
            return [x, y]
        if r < 0.5:
            return [math.nextafter(x, math.inf), y]
        if r < 0.7:
            return [x, math.nextafter(y, -math.inf)]
        if r < 0.85:
            return [x * (1 + 2.0 ** -20) if x else 2.0 ** -40, y]
        return [x + step, y - step]
    skind = rng.choice(['point', 'multipoint'])
    if skind == 'point':
        shape_el = near(rng.choice(pts))
        shape = gen.scalar_cls_of('point')(np.asarray(shape_el, dtype='float64'))
        members = [tuple(shape_el)]
    else:
        members = [tuple(near(rng.choice(pts))) for _ in range(rng.randint(1, 4))]
        shape_el = [c for m in members for c in m]
        shape = gen.scalar_cls_of('multipoint')(shape_el)
    exp = [tuple(p) in members for p in pts]
    recipe = {'kind': 'point', 'elements': pts, 'steps': []}
    out = []
    got = arr.intersects(shape)
    if [bool(g) for g in got] != exp:
        out.append(V(f'pointarray.intersects-near-points/{skind}/array-form', f'points {pts} shape {shape_el}: got '
                     f'{[bool(g) for g in got]} expected {exp}', recipe, shape=[skind, shape_el]))
        return out
    perm = list(range(len(pts)))
    rng.shuffle(perm)
    inds = np.array(perm, dtype='int64')
    gi = arr.intersects(shape, inds)
    if [bool(x) for x in gi] != [exp[i] for i in perm]:
        out.append(V(f'pointarray.intersects-near-points/{skind}/inds-form', f'points {pts} shape {shape_el} inds {perm}',
                     recipe, shape=[skind, shape_el]))
    for i, p in enumerate(pts):
        sc = arr[i].intersects(shape)
        if bool(sc) != exp[i]:
            out.append(V(f'pointarray.intersects-near-points/{skind}/scalar-form', f'point {p} shape {shape_el}: scalar '
                         f'{bool(sc)} expected {exp[i]}', recipe, shape=[skind, shape_el]))
            break
    return out


# ------------------------------------------------------------------ C16

@check(('C16', 'C17'), 'array.derived-elements')
def c_derived(rng):
    kind = rng.choice(gen.KINDS)
    cs = gen.case(kind, rng)
    out = []
    arr, view = cs.arr, cs.view
    if len(arr) != len(view):
        return [V(f'array.len/{kind}', f'{len(arr)} vs {len(view)}', cs.recipe)]
    isna = list(arr.isna())
    if isna != [v is None for v in view]:
        out.append(V(f'array.isna/{kind}', f'{isna}', cs.recipe))
    got = arr.data.to_pylist() if kind != 'point' else [None if x is None else [float(c) for c in np.frombuffer(x, dtype=cs.dtype)] for x in arr.data.to_pylist()]
    exp = [None if v is None else _norm(kind, v) for v in view]
    if got != exp:
        out.append(V(f'array.elements/{kind}', f'got {got} expected {exp}', cs.recipe))
    for i in range(len(view)):
        el = arr[i]
        if (el is None) != (view[i] is None):
            out.append(V(f'array.getitem/{kind}', f'row {i}', cs.recipe))
            break
    # elements however obtained - arr[i], iteration, list(), a Series' own iteration - behave like fresh ones:
    # their quantities are those of the element's own coordinates
    import spatialpandas as sp
    bx = gen.box(rng)
    eff = oracle.norm_box(bx)
    routes = {'getitem': lambda: [arr[i] for i in range(len(view))], 'iter': lambda: [g for g in arr],
              'list': lambda: list(arr), 'series-iter': lambda: list(sp.GeoSeries(arr)),
              'series-tolist': lambda: sp.GeoSeries(arr).tolist()}
    route = rng.choice(sorted(routes))
    try:
        els = routes[route]()
        if len(els) != len(view):
            out.append(V(f'array.elements-by-{route}/{kind}/count', f'{len(els)} vs {len(view)}', cs.recipe))
        else:
            for i, (g, v) in enumerate(zip(els, view)):
                if (g is None) != (v is None):
                    out.append(V(f'array.elements-by-{route}/{kind}/missingness', f'row {i}', cs.recipe))
                    break
                if g is None:
                    continue
                okq = True
                if kind != 'point':
                    okq = close(g.length, oracle.length(kind, v)) and close(g.area, oracle.area(kind, v) if kind in ('polygon', 'multipolygon') else 0.0, rel=0)
                if okq and all(math.isfinite(c) for c in oracle.flat_coords(kind, v)):
                    okq = bool(g.intersects_bounds(bx)) == bool(oracle.intersects_bounds(kind, v, eff))
                if not okq:
                    out.append(V(f'array.elements-by-{route}/{kind}/quantity-of-element', f'row {i} of {len(view)}', dict(cs.recipe, box=bx)))
                    break
    except Exception as e:
        out.append(V(f'array.elements-by-{route}/{kind}/raises-{type(e).__name__}', f'{e}', cs.recipe))
    if len(view):
        if arr[-1] is None and view[-1] is not None:
            out.append(V(f'array.getitem-negative/{kind}', '', cs.recipe))
        for bad in (len(view), -len(view) - 1):
            try:
                arr[bad]
                out.append(V(f'array.getitem-out-of-range-no-error/{kind}', f'{bad}', cs.recipe))
            except IndexError:
                pass
    return out


def _norm(kind, v):
    if kind == 'point' or kind in oracle.LIST1:
        return [float(c) for c in v]
    if kind in oracle.LIST2:
        return [[float(c) for c in p] for p in v]
    return [[[float(c) for c in r] for r in p] for p in v]


# ------------------------------------------------------------------ C08

@check(('C08', 'C16', 'C17'), 'array.hilbert_distance')
def c_hilbert_distance(rng):
    kind = rng.choice(gen.KINDS)
    cs = gen.case(kind, rng, p_missing=0.15)
    p = rng.choice([1, 2, 5, 10, 15])
    out = []
    if not len(cs.view):
        return out
    tb = oracle.total_bounds(kind, cs.view)
    if any(math.isnan(x) for x in tb):
        return out
    variant = rng.choice(['default', 'list', 'tuple', 'array', 'degenerate-tuple', 'degenerate-list'])
    if variant.startswith('degenerate'):
        tbv = [tb[0], tb[1], tb[0], tb[3]]
    else:
        tbv = list(tb)
    arg = {'default': None, 'list': list(tbv), 'tuple': tuple(tbv), 'array': np.array(tbv, dtype='float64'),
           'degenerate-tuple': tuple(tbv), 'degenerate-list': list(tbv)}[variant]
    keep = None if arg is None else (list(arg) if not isinstance(arg, np.ndarray) else arg.copy())
    try:
        d = cs.arr.hilbert_distance(total_bounds=arg, p=p)
    except Exception as e:
        return [V(f'array.hilbert_distance/raises-{type(e).__name__}/{variant}/{region_of(cs.view)}/{kind_class(kind)}', f'{e}', cs.recipe)]
    if arg is not None and list(arg) != list(keep):
        out.append(V(f'array.hilbert_distance/argument-modified/{variant}', f'{list(arg)} was {list(keep)}', cs.recipe))
    if any(not (0 <= int(x) < 4 ** p) for x in d):
        out.append(V('array.hilbert_distance/range', f'{list(d)} p={p}', cs.recipe))
    # depends only on the element and (total_bounds, p): compare with one-element arrays
    ref_tb = tuple(tbv)
    for i, el in enumerate(cs.view):
        if el is None:
            continue
        one = gen.build(kind, [el], cs.dtype)
        try:
            d1 = one.hilbert_distance(total_bounds=list(ref_tb), p=p)[0]
        except Exception as e:
            out.append(V(f'array.hilbert_distance/single-element-raises-{type(e).__name__}', f'{e}', cs.recipe))
            break
        if int(d1) != int(d[i]):
            out.append(V('array.hilbert_distance/depends-on-context', f'row {i}: {d[i]} vs alone {d1}', cs.recipe))
            break
    return out


# ------------------------------------------------------------------ C03

@check(('C03', 'C17'), 'rtree.queries')
def c_rtree(rng):
    from spatialpandas.spatialindex import HilbertRtree
    d = rng.choice([1, 2, 2, 2, 3])
    n = rng.choice([0, 1, 2, 3, 5, 8, 13])
    rows = []
    for _ in range(n):
        if rng.random() < 0.15:
            rows.append([float('nan')] * (2 * d))
        else:
            lo = [float(rng.randint(-5, 8)) for _ in range(d)]
            ext = [float(rng.choice([0, 0, 1, 2, 3])) for _ in range(d)]
            rows.append(lo + [a + b for a, b in zip(lo, ext)])
    if n and rng.random() < 0.2:
        rows = [rows[0]] * n
    boxes = np.array(rows, dtype='float64').reshape(n, 2 * d)
    page = rng.choice([1, 2, 3, 4, 7, 512, max(n - 1, 1), n + 1])
    p = rng.choice([1, 2, 5, 10, 31])
    qlo = [float(rng.randint(-6, 8)) for _ in range(d)]
    q = qlo + [a + float(rng.choice([0, 1, 2, 4, 20])) for a in qlo]
    if rng.random() < 0.15:
        q = [-100.0] * d + [100.0] * d
    if rng.random() < 0.15:
        # unbounded queries: everything, or half-open in some dimension
        for k in range(d):
            r = rng.random()
            if r < 0.4:
                q[k] = float('-inf')
            if 0.2 < r < 0.7:
                q[d + k] = float('inf')
    recipe = {'boxes': boxes.tolist(), 'page_size': page, 'p': p, 'query': q}
    from .registry import note_input
    note_input(recipe, nontrivial=n > 0)
    has_nan = bool(np.isnan(boxes).any())
    tag = 'nan-row' if has_nan else 'finite'
    out = []
    try:
        t = HilbertRtree(boxes, p=p, page_size=page)
        got = sorted(int(x) for x in t.intersects(q))
        cov, ovl = t.covers_overlaps(q)
        cov, ovl = sorted(int(x) for x in cov), sorted(int(x) for x in ovl)
    except Exception as e:
        return [V(f'rtree/raises-{type(e).__name__}/{tag}', f'{e}', recipe)]

    def ov(r):
        return all(r[k] <= q[d + k] and r[d + k] >= q[k] for k in range(d))

    def cv(r):
        return all(r[k] >= q[k] and r[d + k] <= q[d + k] for k in range(d))
    e_ov = [i for i, r in enumerate(rows) if ov(r)]
    e_cv = [i for i, r in enumerate(rows) if cv(r)]
    if got != e_ov:
        out.append(V(f'rtree.intersects/{tag}', f'got {got} expected {e_ov}', recipe))
    if cov != e_cv:
        out.append(V(f'rtree.covers/{tag}', f'got {cov} expected {e_cv}', recipe))
    if ovl != [i for i in e_ov if i not in e_cv]:
        out.append(V(f'rtree.overlaps/{tag}', f'got {ovl} expected {[i for i in e_ov if i not in e_cv]}', recipe))
    if n:
        fin = [r for r in rows if not any(math.isnan(v) for v in r)]
        nan = float('nan')
        exp_tb = tuple([min(r[k] for r in fin) if fin else nan for k in range(d)] +
                       [max(r[d + k] for r in fin) if fin else nan for k in range(d)])
        if not all(nan_eq(a, b) for a, b in zip(t.total_bounds, exp_tb)):
            out.append(V(f'rtree.total_bounds/{tag}', f'got {t.total_bounds} expected {exp_tb}', recipe))
    return out


@check(('C03', 'C04'), 'rtree.tree-invariant')
def c_rtree_invariant(rng):
    """The data-structure invariant TI that the deductive contract of `_maybe_intersects_ranges` *requires*
    (contracts/c03_query.py), evaluated on trees built by the real `_build_hilbert_rtree`, and the traversal's
    proved postcondition evaluated on the real traversal (cross-check of the engine's list semantics)."""
    from spatialpandas.spatialindex import HilbertRtree
    d = rng.choice([1, 2, 2, 3])
    n = rng.choice([1, 2, 3, 5, 8, 13, 21, 40])
    rows = []
    for _ in range(n):
        if rng.random() < 0.25:
            rows.append([float('nan')] * (2 * d))
        else:
            lo = [float(rng.randint(-5, 8)) for _ in range(d)]
            rows.append(lo + [a + float(rng.choice([0, 0, 1, 2, 3])) for a in lo])
    if rng.random() < 0.2:
        k = rng.randint(1, n)
        rows = [[float('nan')] * (2 * d)] * k + rows[k:]
    boxes = np.array(rows, dtype='float64').reshape(n, 2 * d)
    page = rng.choice([1, 1, 2, 3, 4, 7, max(n - 1, 1), n, n + 1, 512])
    p = rng.choice([1, 2, 5, 10, 31])
    qlo = [float(rng.randint(-6, 8)) for _ in range(d)]
    q = qlo + [a + float(rng.choice([0, 1, 2, 4, 20])) for a in qlo]
    if rng.random() < 0.2:
        q = [float('-inf')] * d + [float('inf')] * d
    recipe = {'boxes': boxes.tolist(), 'page_size': page, 'p': p, 'query': q}
    from .registry import note_input
    note_input(recipe)
    out = []
    t = HilbertRtree(boxes, p=p, page_size=page)
    nt = t.numba_rtree
    tree, sb, ps = np.asarray(nt._bounds_tree), np.asarray(nt._bounds), int(nt._page_size)
    tl, N = tree.shape[0], sb.shape[0]
    L = (tl + 1) // 2
    if tl < 1 or (L & (L - 1)) != 0 or tl != 2 * L - 1:
        return [V('rtree.tree-invariant/perfect-tree', f'tree length {tl}', recipe)]
    if ps < 1 or not (0 <= N <= L * ps):
        out.append(V('rtree.tree-invariant/rows-fit-the-leaves', f'N={N} L={L} page={ps}', recipe))

    def lm(node):
        while 2 * node + 1 < tl:
            node = 2 * node + 1
        return node

    def rm(node):
        while 2 * node + 2 < tl:
            node = 2 * node + 2
        return node
    valid = ~np.isnan(sb).any(axis=1)
    for node in range(tl):
        a, b = (lm(node) - (L - 1)) * ps, (rm(node) - (L - 1) + 1) * ps
        if int(nt._start_index(node)) != a or int(nt._stop_index(node)) != b:
            out.append(V('rtree.tree-invariant/start-stop', f'node {node}', recipe))
            break
        for r in range(max(a, 0), min(b, N)):
            if not valid[r]:
                continue
            ok = (not math.isnan(tree[node, 0])) and all(tree[node, k] <= sb[r, k] and sb[r, k + d] <= tree[node, k + d]
                                                          for k in range(d))
            if not ok:
                out.append(V('rtree.tree-invariant/node-boxes-enclose-their-rows', f'node {node} row {r}', recipe))
                break
    # the proved postcondition, on the real traversal
    cov, may = nt._maybe_intersects_ranges(tuple(q))
    cov, may = [tuple(int(v) for v in x) for x in cov], [tuple(int(v) for v in x) for x in may]
    allr = sorted(cov + may)
    if any(a < 0 or a > b or b > L * ps for a, b in allr) or any(x[1] > y[0] for x, y in zip(allr, allr[1:])):
        out.append(V('rtree.traversal/ranges-disjoint', f'{cov} {may}', recipe))
    for r in range(N):
        if not valid[r]:
            continue
        meets = all(sb[r, k] <= q[d + k] and sb[r, k + d] >= q[k] for k in range(d))
        inside = all(sb[r, k] >= q[k] and sb[r, k + d] <= q[d + k] for k in range(d))
        if meets and not any(a <= r < b for a, b in allr):
            out.append(V('rtree.traversal/nothing-lost', f'row {r} {cov} {may}', recipe))
            break
        if not inside and any(a <= r < b for a, b in cov):
            out.append(V('rtree.traversal/covered-rows-inside-query', f'row {r} {cov}', recipe))
            break
    return out


def hilbert_xy2d(p, x, y):
    """classical 2-d Hilbert curve index (independent reference implementation)"""
    n = 1 << p
    d = 0
    s = n >> 1
    while s > 0:
        rx = 1 if (x & s) else 0
        ry = 1 if (y & s) else 0
        d += s * s * ((3 * rx) ^ ry)
        if ry == 0:
            if rx == 1:
                x = n - 1 - x
                y = n - 1 - y
            x, y = y, x
        s >>= 1
    return d


@check(('C08',), 'array.hilbert_distance-fine-grid')
def c_hilbert_fine_grid(rng):
    """a grid finer than the resolution of the coordinate subtype (p 24..31, float32 or float64 coordinates one ulp
    apart): the cell is that of the exact bounding-box midpoint; extent a power of two, so the scaling is exact"""
    from fractions import Fraction as Fr
    kind = rng.choice(gen.KINDS)
    dtype = rng.choice(['float32', 'float32', 'float64'])
    els = gen.elements(kind, rng, p_missing=0.1, p_empty=0.0)
    if not any(e is not None for e in els):
        return []
    u = 2.0 ** -23

    def fine(x):
        if x is None:
            return None
        if isinstance(x, list):
            return [fine(v) for v in x]
        return 1.0 + (float(x) + 16.0) * u          # coordinates in [1, 2): representable in float32
    if any(abs(c) > 16 or c != c or float(c) != int(c) for c in gen._coords(els)):
        return []
    els = [fine(e) for e in els]
    arr = gen.build(kind, els, dtype)
    p = rng.choice([24, 25, 28, 31])
    tb = (1.0, 1.0, 2.0, 2.0)
    recipe = {'kind': kind, 'elements': els, 'steps': [], 'dtype': dtype, 'total_bounds': list(tb), 'p': p}
    try:
        d = arr.hilbert_distance(total_bounds=tb, p=p)
    except Exception as e:
        return [V(f'array.hilbert_distance-fine-grid/raises-{type(e).__name__}', f'{e}', recipe)]
    side = 1 << p
    for i, el in enumerate(els):
        if el is None:
            continue
        b = oracle.bounds(kind, el)
        if any(math.isnan(v) for v in b):
            continue
        mx, my = (Fr(b[0]) + Fr(b[2])) / 2, (Fr(b[1]) + Fr(b[3])) / 2
        cx = min(max(int(math.floor((mx - 1) * side)), 0), side - 1)
        cy = min(max(int(math.floor((my - 1) * side)), 0), side - 1)
        exp = hilbert_xy2d(p, cx, cy)
        if int(d[i]) != exp:
            return [V(f'array.hilbert_distance-fine-grid/cell/{dtype}', f'row {i} bounds {b} p {p}: got {int(d[i])} expected {exp} '
                      f'(cell {cx},{cy})', recipe)]
    return []


@check(('C08', 'C07'), 'array.hilbert_distance-reference-cell')
def c_hilbert_reference(rng):
    """value check where the scaling is exact: extent a power of two (or degenerate, widened by one)"""
    from fractions import Fraction as Fr
    kind = rng.choice(gen.KINDS)
    cs = gen.case(kind, rng, p_missing=0.1, p_empty=0.0)
    if not len(cs.view):
        return []
    p = rng.choice([1, 2, 3, 4, 6])
    # origin possibly fractional (the extent stays a power of two, so the scaling is exact): an explicit total_bounds is
    # a float box whatever the coordinate subtype of the array
    fr_x, fr_y = rng.choice([0.0, 0.0, 0.5, 0.25]), rng.choice([0.0, 0.0, 0.5])
    if cs.dtype.startswith('int') and rng.random() < 0.8:
        fr_x, fr_y = rng.choice([0.5, 0.25, 0.75]), rng.choice([0.5, 0.0, 0.75])
    x0, y0 = float(rng.randint(-8, 0)) + fr_x, float(rng.randint(-8, 0)) + fr_y
    w = rng.choice([0.0, 8.0, 16.0, 32.0])
    h = rng.choice([0.0, 8.0, 16.0, 32.0])
    tb = (x0, y0, x0 + w, y0 + h)
    variant = rng.choice(['tuple', 'list', 'array'])
    arg = {'tuple': tuple(tb), 'list': list(tb), 'array': np.array(tb)}[variant]
    route = rng.choice(['array', 'series'])
    recipe = dict(cs.recipe, total_bounds=list(tb), p=p, variant=variant, route=route)
    try:
        if route == 'series':
            import spatialpandas as sp
            d = sp.GeoSeries(cs.arr).hilbert_distance(total_bounds=arg, p=p).values
        else:
            d = cs.arr.hilbert_distance(total_bounds=arg, p=p)
    except Exception as e:
        return [V(f'array.hilbert_distance-reference/raises-{type(e).__name__}/{"degenerate" if 0.0 in (w, h) else "regular"}', f'{e}', recipe)]
    side = 1 << p
    ew, eh = (w if w else 1.0), (h if h else 1.0)
    out = []
    for i, el in enumerate(cs.view):
        if el is None:
            continue
        b = oracle.bounds(kind, el)
        if any(math.isnan(v) for v in b):
            continue
        mx, my = (Fr(b[0]) + Fr(b[2])) / 2, (Fr(b[1]) + Fr(b[3])) / 2
        cx = int(math.floor((mx - Fr(x0)) * side / Fr(ew))) if (mx - Fr(x0)) >= 0 else -1
        cy = int(math.floor((my - Fr(y0)) * side / Fr(eh))) if (my - Fr(y0)) >= 0 else -1
        # truncation toward zero then clamp: negative products clamp to 0
        cx = min(max(cx, 0), side - 1)
        cy = min(max(cy, 0), side - 1)
        exp = hilbert_xy2d(p, cx, cy)
        if int(d[i]) != exp:
            shape = 'zero-height' if h == 0 and w != 0 else 'zero-width' if w == 0 and h != 0 else 'point-extent' if w == 0 else 'regular'
            out.append(V(f'array.hilbert_distance-reference/cell/{shape}', f'row {i} bounds {b} tb {tb} p {p}: got {int(d[i])} expected {exp} (cell {cx},{cy})', recipe))
            break
    return out
