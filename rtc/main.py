"""Run under /venv/bin/python:  python -m rtc.main --prop C13 --tier quick --seed 0 [--repo /repo]
Evaluates the run-time checked contracts tagged with the property on generated inputs against the REAL
code and prints one JSON document: evaluations per contract, distinct inputs, violations (with recipes)."""
import argparse
import hashlib
import json
import os
import random
import sys
import time
import traceback
import warnings


def main():
    ap = argparse.ArgumentParser()
    ap.add_argument('--prop', required=True)
    ap.add_argument('--tier', default='quick')
    ap.add_argument('--seed', type=int, default=0)
    ap.add_argument('--repo', default='/repo')
    ap.add_argument('--only')
    ap.add_argument('--n', type=int)
    ap.add_argument('--recipe')
    a = ap.parse_args()
    sys.path.insert(0, a.repo)
    os.chdir(a.repo)
    warnings.filterwarnings('ignore')
    os.environ.setdefault('NUMBA_DISABLE_PERFORMANCE_WARNINGS', '1')
    from rtc import checks_array, checks_frame  # noqa: F401
    from rtc.registry import CHECKS
    from rtc.gen import DerivationError
    n_default = {'quick': 60, 'thorough': 600}[a.tier]
    out = {'prop': a.prop, 'contracts': [], 'violations': [], 'evaluations': 0, 'distinct_inputs': 0, 'errors': []}
    seen = set()
    for props, name, fn in CHECKS:
        if a.prop not in props:
            continue
        if a.only and a.only != name:
            continue
        n = a.n or getattr(fn, 'n', {}).get(a.tier, n_default)
        rng = random.Random(f'{a.seed}/{name}')
        t0 = time.time()
        evals = 0
        viol_keys = {}
        for _ in range(n):
            try:
                vs = fn(rng)
            except DerivationError as e:
                # a valid derivation step raised in the code under test: C16 states what every derivation yields, so
                # there it is a violation; for the other properties the input could not be built and the sample is
                # skipped (counted), not a fault of the checker
                if a.prop == 'C16':
                    vs = [{'key': f'derivation/{e.step[0]}/raises-{type(e.exc).__name__}', 'detail': str(e)[:600],
                           'recipe': e.recipe}]
                else:
                    out['skipped_inputs'] = out.get('skipped_inputs', 0) + 1
                    continue
            except Exception as e:
                out['errors'].append({'contract': name, 'error': f'{type(e).__name__}: {e}', 'trace': traceback.format_exc(limit=4)})
                break
            evals += 1
            for v in vs:
                h = hashlib.sha1(json.dumps(v.get('recipe'), sort_keys=True, default=str).encode()).hexdigest()
                seen.add(h)
                if v['key'] not in viol_keys:
                    viol_keys[v['key']] = v
                    v['contract'] = name
                    out['violations'].append(v)
            if time.time() - t0 > (120 if a.tier == 'quick' else 1200):
                break
        out['contracts'].append({'name': name, 'evaluations': evals, 'violation_keys': sorted(viol_keys), 'wall_s': round(time.time() - t0, 1)})
        out['evaluations'] += evals
    from rtc.registry import input_stats
    out['distinct_inputs'], out['distinct_nontrivial'] = input_stats()
    json.dump(out, sys.stdout, default=str)


if __name__ == '__main__':
    main()
