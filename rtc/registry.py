CHECKS = []


def check(props, name):
    def deco(fn):
        CHECKS.append((tuple(props), name, fn))
        return fn
    return deco


def V(key, detail, recipe, **extra):
    d = {'key': key, 'detail': str(detail)[:600], 'recipe': recipe}
    d.update(extra)
    return d


# ---- measured input diversity (per contract run): distinct recipes, and how many are non-trivial
_SEEN = set()
_NONTRIVIAL = set()


def note_input(recipe, nontrivial=True):
    import hashlib
    import json
    h = hashlib.sha1(json.dumps(recipe, sort_keys=True, default=str).encode()).hexdigest()
    _SEEN.add(h)
    if nontrivial:
        _NONTRIVIAL.add(h)


def input_stats():
    return len(_SEEN), len(_NONTRIVIAL)
