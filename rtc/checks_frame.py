"""Run-time checked contracts of cx / sjoin / active geometry / dask glue (bounded stand-in)."""
import math
import warnings

import numpy as np
import pandas as pd

from . import gen, oracle
from .registry import check, V
from .checks_array import nan_eq, region_of, kind_class


def _frame(kind, rng, extra_geom=False, n=None, **kw):
    import spatialpandas as sp
    cs = gen.case(kind, rng, derive=False, n=n, **kw)
    n = len(cs.view)
    idx = [rng.choice(['a', 'b', 'c', 'd', 'e']) + str(rng.randint(0, 3)) for _ in range(n)]
    data = {'v': list(range(100, 100 + n)), 'geometry' if not extra_geom else 'g1': cs.arr}
    return cs, sp.GeoDataFrame(data, index=idx), idx


# ------------------------------------------------------------------ C04 cx

@check(('C04', 'C17'), 'cx.selects-intersecting-rows')
def c_cx(rng):
    import spatialpandas as sp
    kind = rng.choice(gen.KINDS)
    cs = gen.case(kind, rng)
    state = rng.choice(['none', 'built', 'built', 'parent-built'])
    if state == 'parent-built' and rng.random() < 0.6:
        # index built on the source, then ONE slice (the derivations after which a stale index could survive):
        # plain, counted from the end, open-ended or over-long
        els = gen.elements(kind, rng, n=rng.choice([3, 5, 8]))
        m = len(els)
        a = rng.choice([0, 1, -1, -2, -m, -(m - 1)])
        b = rng.choice([None, None, m, m + 3, m - 1])
        cs = gen.Case(kind, els, [['slice', a, b, None]], gen.pick_dtype(rng, els))
    n = len(cs.view)
    tb = oracle.total_bounds(kind, cs.view)
    bx = gen.box(rng, positive=True)
    form = rng.choice(['full', 'full', 'omit-x0', 'omit-y1', 'reversed', 'omit-all'])
    if any(math.isnan(v) for v in tb) and form.startswith('omit'):
        form = 'full'
    x0, y0, x1, y1 = bx
    sx, sy = slice(x0, x1), slice(y0, y1)
    eff = [min(x0, x1), min(y0, y1), max(x0, x1), max(y0, y1)]
    if form == 'omit-x0':
        sx = slice(None, x1)
        eff = [min(tb[0], x1), eff[1], max(tb[0], x1), eff[3]]
    elif form == 'omit-y1':
        sy = slice(y0, None)
        eff = [eff[0], min(y0, tb[3]), eff[2], max(y0, tb[3])]
    elif form == 'reversed':
        sx, sy = slice(max(x0, x1), min(x0, x1)), slice(max(y0, y1), min(y0, y1))
    elif form == 'omit-all':
        sx, sy = slice(None, None), slice(None, None)
        eff = list(tb)
    if eff[0] == eff[2] or eff[1] == eff[3]:
        return []    # degenerate box: outside the guarantee for line / polygon kinds
    exp = [i for i, el in enumerate(cs.view) if oracle.intersects_bounds(kind, el, eff)]
    out = []
    recipe = dict(cs.recipe, box=[sx.start, sx.stop, sy.start, sy.stop], index_state=state)
    tag = f'{kind_class(kind)}/{region_of(cs.view, kind)}'
    try:
        arr = cs.arr
        if state == 'built':
            arr = arr.copy()
            arr.build_sindex(p=rng.choice([1, 5, 10]), page_size=rng.choice([1, 2, 3, 4, 512]))
            recipe['index_state'] = 'built'
        elif state == 'parent-built':
            # the index is built on the source array, the query runs on what was derived from it afterwards
            parent = gen.build(kind, cs.recipe['elements'], cs.recipe.get('dtype', 'float64'))
            parent.build_sindex(p=rng.choice([1, 5, 10]), page_size=rng.choice([1, 2, 3, 512]))
            arr, _ = gen.apply_steps(parent, list(cs.recipe['elements']), cs.recipe['steps'])
        got = arr.cx[sx, sy]
        gv = got.data.to_pylist() if kind != 'point' else [None if x is None else [float(c) for c in np.frombuffer(x, dtype=cs.dtype)] for x in got.data.to_pylist()]
        ev = cs.arr.take(np.array(exp, dtype='int64')).data.to_pylist() if exp else []
        if kind == 'point':
            ev = [None if x is None else [float(c) for c in np.frombuffer(x, dtype=cs.dtype)] for x in ev]
        if gv != ev:
            out.append(V(f'cx.array/{state}/{tag}', f'box {eff}: got {len(gv)} rows expected rows {exp}', recipe))
        # series / frame with labels and an extra column
        # labels: unique strings, repeated labels, integers that are not the positions (reversed / offset)
        scheme = rng.choice(['unique', 'unique', 'repeated', 'all-same', 'reversed-ints', 'offset-ints'])
        labels = {'unique': [f'r{i}' for i in range(n)], 'repeated': [f'r{i % 3}' for i in range(n)],
                  'all-same': ['r'] * n, 'reversed-ints': list(range(n))[::-1],
                  'offset-ints': [i + 2 for i in range(n)]}[scheme]
        recipe['labels'] = scheme
        s = sp.GeoSeries(arr, index=labels)
        gs = s.cx[sx, sy]
        if list(gs.index) != [labels[i] for i in exp]:
            out.append(V(f'cx.series/{state}/{tag}', f'box {eff}: got {list(gs.index)} expected {[labels[i] for i in exp]}', recipe))
        if n:
            df = sp.GeoDataFrame({'geometry': arr, 'v': list(range(n))}, index=labels)
            if state == 'built':
                df.build_sindex(page_size=rng.choice([1, 2, 512]))
            gd = df.cx[sx, sy]
            if list(gd.index) != [labels[i] for i in exp] or list(gd['v']) != exp:
                out.append(V(f'cx.frame/{state}/{tag}', f'box {eff}: got {list(gd.index)} expected {[labels[i] for i in exp]}', recipe))
    except Exception as e:
        out.append(V(f'cx/raises-{type(e).__name__}/{state}/{tag}', f'{e}', recipe))
    return out


# ------------------------------------------------------------------ C05 sjoin

@check(('C05', 'C17'), 'sjoin.pairs')
def c_sjoin(rng):
    import spatialpandas as sp
    from spatialpandas import sjoin
    rkind = rng.choice(['polygon', 'multipolygon', 'polygon', 'line', 'multipoint', 'point', 'multiline'])
    rs = gen.case(rkind, rng, derive=False, n=rng.choice([0, 1, 2, 3, 4]), p_missing=0.15, p_empty=0.0)
    # left points: random, but about half of them placed near / inside the right shapes so that matches are
    # common; missing points in between
    nl_ = rng.choice([0, 1, 3, 5, 8])
    fc = [c for el in rs.view if el is not None for c in oracle.flat_coords(rkind, el)]
    els = []
    for _ in range(nl_):
        r = rng.random()
        if r < 0.25:
            els.append(None)
        elif r < 0.65 and len(fc) >= 2:
            k = rng.randrange(len(fc) // 2)
            dx, dy = rng.choice([(0.0, 0.0), (0.5, 0.5), (1.0, 1.0), (-0.5, 0.5), (1.0, 0.5)])
            els.append([fc[2 * k] + dx, fc[2 * k + 1] + dy])
        else:
            els.append(gen.element('point', rng))
    if els and rng.random() < 0.15:
        # a left frame longer than the default page size of its spatial index (512): hundreds of missing points, or
        # of points far away from every right shape, before / after / around the interesting rows
        m = rng.choice([513, 1100, 1600, 2100])
        pad = [None] * m if rng.random() < 0.6 else [[1000.0 + i, 2000.0 + (i % 7)] for i in range(m)]
        cut = rng.choice([0, len(els), rng.randint(0, len(els))])
        k = rng.choice([0, m, rng.randint(0, m)])
        els = pad[:k] + els[:cut] + pad[k:] + els[cut:]
    pts = gen.Case('point', els, [])
    nl, nr = len(pts.view), len(rs.view)
    if nl == 0 or nr == 0:
        return []
    # keep points off polygon boundaries
    pairs = []
    for li, p in enumerate(pts.view):
        for ri, sh in enumerate(rs.view):
            e = oracle.point_intersects(p, rkind, sh)
            if e is None:
                return []
            if e:
                pairs.append((li, ri))
    lidx = [rng.choice([0, 1, 2, 5, 7]) for _ in range(nl)]
    ridx = [f's{j}' for j in range(nr)]
    index_kind = rng.choice(['explicit', 'explicit', 'range-offset', 'range-step'])
    if index_kind == 'explicit':
        left = sp.GeoDataFrame({'geometry': pts.arr, 'a': list(range(nl)), 'v': [10 * i for i in range(nl)]}, index=pd.Index(lidx, name='lid'))
        right = sp.GeoDataFrame({'geometry': rs.arr, 'b': list(range(nr)), 'v': [7 * j for j in range(nr)]}, index=ridx)
    else:
        # default RangeIndex that does not start at 0 / has a step (a frame sliced out of a larger one): labels, not positions
        start, step = (3, 1) if index_kind == 'range-offset' else (1, 2)
        lidx = list(range(start, start + step * nl, step))
        ridx = list(range(start + 1, start + 1 + step * nr, step))
        left = sp.GeoDataFrame({'geometry': pts.arr, 'a': list(range(nl)), 'v': [10 * i for i in range(nl)]},
                               index=pd.RangeIndex(start, start + step * nl, step, name='lid'))
        right = sp.GeoDataFrame({'geometry': rs.arr, 'b': list(range(nr)), 'v': [7 * j for j in range(nr)]},
                                index=pd.RangeIndex(start + 1, start + 1 + step * nr, step))
    how = rng.choice(['inner', 'left', 'right'])
    recipe = {'left': pts.recipe, 'right': rs.recipe, 'how': how, 'lidx': lidx}
    tag = f'{how}/{rkind}/{region_of(pts.view)}'
    out = []
    try:
        with warnings.catch_warnings():
            warnings.simplefilter('ignore')
            j = sjoin(left, right, how=how)
    except Exception as e:
        return [V(f'sjoin/raises-{type(e).__name__}/{tag}', f'{e}', recipe)]
    if how in ('inner', 'left'):
        got = [(int(a), (None if pd.isna(b) else int(b))) for a, b in zip(j['a'], j['b'])]
        exp = [(l, r) for l, r in pairs]
        if how == 'left':
            matched = {l for l, _ in pairs}
            exp += [(l, None) for l in range(nl) if l not in matched]
        exp = sorted(exp, key=lambda t: (t[0], -1 if t[1] is None else t[1]))
        got = sorted(got, key=lambda t: (t[0], -1 if t[1] is None else t[1]))
        if got != exp:
            out.append(V(f'sjoin.pairs/{tag}', f'got {got} expected {exp}', recipe))
        else:
            if list(j.index) != [lidx[a] for a in j['a']] or j.index.name != 'lid':
                out.append(V(f'sjoin.left-index/{tag}', f'{list(j.index)}', recipe))
            if 'v_left' not in j.columns or 'v_right' not in j.columns or 'index_right' not in j.columns:
                out.append(V(f'sjoin.columns/{tag}', f'{list(j.columns)}', recipe))
            else:
                ok = all((pd.isna(b) and pd.isna(ir)) or (ir == ridx[int(b)]) for b, ir in zip(j['b'], j['index_right']))
                if not ok:
                    out.append(V(f'sjoin.index_right/{tag}', '', recipe))
    else:
        got = [((None if pd.isna(a) else int(a)), int(b)) for a, b in zip(j['a'], j['b'])]
        matched = {r for _, r in pairs}
        exp = sorted([(l, r) for l, r in pairs] + [(None, r) for r in range(nr) if r not in matched],
                     key=lambda t: (t[1], -1 if t[0] is None else t[0]))
        got = sorted(got, key=lambda t: (t[1], -1 if t[0] is None else t[0]))
        if got != exp:
            out.append(V(f'sjoin.pairs/{tag}', f'got {got} expected {exp}', recipe))
    # the clashing column `v` comes out as v_left (the left frame's value) and v_right (the right frame's value)
    if not out and 'v_left' in j.columns and 'v_right' in j.columns:
        for a_, b_, vl, vr in zip(j['a'], j['b'], j['v_left'], j['v_right']):
            okl = pd.isna(vl) if pd.isna(a_) else (not pd.isna(vl) and int(vl) == 10 * int(a_))
            okr = pd.isna(vr) if pd.isna(b_) else (not pd.isna(vr) and int(vr) == 7 * int(b_))
            if not (okl and okr):
                out.append(V(f'sjoin.suffixed-columns/{how}', f'row a={a_} b={b_}: v_left={vl} v_right={vr}', recipe))
                break
    elif not out and len(j):
        out.append(V(f'sjoin.columns/{how}/missing-suffixed', f'{list(j.columns)}', recipe))
    return out


c_sjoin.n = {'quick': 80, 'thorough': 500}


@check(('C05', 'C06', 'C17'), 'sjoin.dask-left-frame')
def c_sjoin_dask(rng):
    """sjoin with a Dask left frame: same pairs as the oracle for how in {inner, left}, however the left rows are
    partitioned - including partitions far away from every right shape and partitions of missing points"""
    import dask
    import spatialpandas as sp
    from spatialpandas import sjoin
    rkind = rng.choice(['polygon', 'multipolygon', 'line', 'point', 'multipoint'])
    rs = gen.case(rkind, rng, derive=False, n=rng.choice([1, 2, 3]), p_missing=0.1, p_empty=0.0)
    fc = [c for el in rs.view if el is not None for c in oracle.flat_coords(rkind, el)]
    nl = rng.choice([4, 6, 9])
    els = []
    for i in range(nl):
        r = rng.random()
        if r < 0.15:
            els.append(None)
        elif r < 0.55 and len(fc) >= 2:
            k = rng.randrange(len(fc) // 2)
            dx, dy = rng.choice([(0.0, 0.0), (0.5, 0.5), (1.0, 1.0), (-0.5, 0.5)])
            els.append([fc[2 * k] + dx, fc[2 * k + 1] + dy])
        else:
            els.append([200.0 + i, 300.0 + i])       # far away from every right shape
    if rng.random() < 0.5:
        els.sort(key=lambda e: (e is None, e[0] if e else 0))    # far rows end up together in the last partition(s)
    pts = gen.Case('point', els, [])
    pairs = []
    for li, p in enumerate(pts.view):
        for ri, sh in enumerate(rs.view):
            e = oracle.point_intersects(p, rkind, sh)
            if e is None:
                return []
            if e:
                pairs.append((li, ri))
    left = sp.GeoDataFrame({'geometry': pts.arr, 'a': list(range(nl))})
    nr = len(rs.view)
    rkind_idx = rng.choice(['default', 'permuted-ints', 'strings', 'offset-ints'])
    ridx = {'default': list(range(nr)), 'permuted-ints': rng.sample(range(nr), nr), 'strings': [f's{j}' for j in range(nr)],
            'offset-ints': [7 + 2 * j for j in range(nr)]}[rkind_idx]
    right = sp.GeoDataFrame({'geometry': rs.arr, 'b': list(range(nr))}, index=ridx)
    how = rng.choice(['inner', 'left'])
    npart = rng.choice([1, 2, 3])
    recipe = {'left': pts.recipe, 'right': rs.recipe, 'how': how, 'npartitions': npart, 'right_index': ridx}
    tag = f'{how}/{rkind}/{region_of(pts.view)}'
    try:
        with dask.config.set(scheduler='synchronous'), warnings.catch_warnings():
            warnings.simplefilter('ignore')
            j = sjoin(_ddf(left, npart), right, how=how).compute()
    except Exception as e:
        return [V(f'sjoin.dask/raises-{type(e).__name__}/{tag}', f'{e}', recipe)]
    got = sorted(((int(a), (None if pd.isna(b) else int(b))) for a, b in zip(j['a'], j['b'])),
                 key=lambda t: (t[0], -1 if t[1] is None else t[1]))
    exp = list(pairs)
    if how == 'left':
        matched = {l for l, _ in pairs}
        exp += [(l, None) for l in range(nl) if l not in matched]
    exp = sorted(exp, key=lambda t: (t[0], -1 if t[1] is None else t[1]))
    if got != exp:
        return [V(f'sjoin.dask.pairs/{tag}', f'got {got} expected {exp}', recipe)]
    if 'index_right' in j.columns:
        ok = all((pd.isna(b) and pd.isna(ir)) or ((not pd.isna(b)) and ir == ridx[int(b)]) for b, ir in zip(j['b'], j['index_right']))
        if not ok:
            return [V(f'sjoin.dask.index_right/{tag}', f'{list(zip(j["b"], j["index_right"]))} labels {ridx}', recipe)]
    return []


c_sjoin_dask.n = {'quick': 40, 'thorough': 300}


# ------------------------------------------------------------------ C20 active geometry (pandas)

@check(('C20',), 'geodataframe.active-geometry')
def c_active_geometry(rng):
    import pickle
    import spatialpandas as sp
    k1, k2 = rng.choice(gen.KINDS), rng.choice(gen.KINDS)
    n = rng.choice([1, 2, 4])
    a = gen.case(k1, rng, derive=False, n=n, p_missing=0.0, p_empty=0.0)
    b = gen.case(k2, rng, derive=False, n=n, p_missing=0.0, p_empty=0.0)
    names = rng.choice([('g1', 'g2'), ('geometry', 'other'), ('other', 'geometry'), ('a', 'b')])
    df = sp.GeoDataFrame({names[0]: a.arr, 'v': list(range(n)), names[1]: b.arr})
    recipe = {'a': a.recipe, 'b': b.recipe, 'names': names}
    out = []
    if df.geometry.name != names[0]:
        out.append(V('geodataframe.default-active/first-geometry-column', f'{df.geometry.name} vs {names[0]}', recipe))
    d2 = df.set_geometry(names[1])
    if d2.geometry.name != names[1] or df.geometry.name != names[0]:
        out.append(V('geodataframe.set_geometry', f'{d2.geometry.name}', recipe))
    ops = {
        'copy': lambda d: d.copy(),
        'iloc-rows': lambda d: d.iloc[::-1],
        'bool-mask': lambda d: d[np.ones(len(d), dtype=bool)],
        'sort': lambda d: d.sort_values('v', ascending=False),
        'column-subset': lambda d: d[[names[1], 'v']],
        'cx': lambda d: d.cx[-100:100, -100:100],
        'pickle': lambda d: pickle.loads(pickle.dumps(d)),
        'concat': lambda d: pd.concat([d, d]),
        'constructor': lambda d: sp.GeoDataFrame(d),
        'head': lambda d: d.head(1),
    }
    for nm, op in ops.items():
        try:
            r = op(d2)
            if not isinstance(r, sp.GeoDataFrame):
                out.append(V(f'geodataframe.active-geometry/{nm}/not-geo-frame/{"named-geometry" if names[1] == "geometry" else "other-name"}', f'{type(r)}', recipe))
                continue
            if r.geometry.name != names[1]:
                out.append(V(f'geodataframe.active-geometry/{nm}/wrong-column/{"named-geometry" if names[1] == "geometry" else "other-name"}', f'{r.geometry.name}', recipe))
        except Exception as e:
            out.append(V(f'geodataframe.active-geometry/{nm}/raises-{type(e).__name__}/{"named-geometry" if names[1] == "geometry" else "other-name"}', f'{e}', recipe))
    plain = d2[['v']]
    if isinstance(plain, sp.GeoDataFrame):
        out.append(V('geodataframe.no-geometry-column-still-geo', '', recipe))
    # ... also when the remaining columns are extension-typed (strings, categoricals, nullable integers)
    try:
        d3 = d2.copy()
        d3['name'] = pd.array([f'n{i}' for i in range(n)], dtype='string')
        d3['kind'] = pd.Categorical(['a', 'b'] * n)[:n]
        d3['cnt'] = pd.array(list(range(n)), dtype='Int64')
        for cols in (['name'], ['kind', 'cnt'], ['v', 'name']):
            sub = d3[cols]
            if isinstance(sub, sp.GeoDataFrame):
                out.append(V('geodataframe.no-geometry-column-still-geo/extension-columns', f'{cols}', recipe))
                break
        sub = d3[['name', names[1]]]
        if not isinstance(sub, sp.GeoDataFrame) or sub.geometry.name != names[1]:
            out.append(V('geodataframe.active-geometry/column-subset-with-extension-columns', '', recipe))
    except Exception as e:
        out.append(V(f'geodataframe.extension-columns/raises-{type(e).__name__}', f'{e}', recipe))
    # spatial operations use the active column
    try:
        bx = (-100.0, -100.0, 100.0, 100.0)
        d2b = d2.copy() if False else d2
        d2b.build_sindex()
        if d2b[names[1]].array._sindex is None:
            out.append(V('geodataframe.build_sindex-uses-active', '', recipe))
    except Exception as e:
        out.append(V(f'geodataframe.build_sindex/raises-{type(e).__name__}', f'{e}', recipe))
    return out


c_active_geometry.n = {'quick': 25, 'thorough': 200}


# ------------------------------------------------------------------ dask: C06 / C09 / C12 / C20

def _ddf(df, npart):
    import dask.dataframe as dd
    return dd.from_pandas(df, npartitions=npart)


@check(('C06', 'C17', 'C13'), 'dask.matches-pandas')
def c_dask(rng):
    import dask
    import spatialpandas as sp
    kind = rng.choice(gen.KINDS)
    cs = gen.case(kind, rng, derive=False, n=rng.choice([1, 2, 4, 6, 9]), p_missing=0.2, p_empty=0.1)
    n = len(cs.view)
    df = sp.GeoDataFrame({'geometry': cs.arr, 'v': list(range(n))})
    npart = rng.choice([1, 2, 3, n])
    recipe = dict(cs.recipe, npartitions=npart)
    tag = f'{kind_class(kind)}/{region_of(cs.view, kind)}'
    out = []
    with dask.config.set(scheduler='synchronous'):
        try:
            ddf = _ddf(df, npart)
            g = ddf.geometry
            tb = oracle.total_bounds(kind, cs.view)
            if not all(nan_eq(a, b) for a, b in zip(g.total_bounds, tb)):
                out.append(V(f'dask.total_bounds/{tag}', f'{g.total_bounds} vs {tb}', recipe))
            bb = g.bounds.compute().values
            eb = [oracle.bounds(kind, el) for el in cs.view]
            if not all(all(nan_eq(a, b) for a, b in zip(r, e)) for r, e in zip(bb, eb)):
                out.append(V(f'dask.bounds/{tag}', '', recipe))
            if not all(nan_eq(a, b) for a, b in zip(g.area.compute().values, df.geometry.area.values)):
                out.append(V(f'dask.area/{tag}', '', recipe))
            gl = g.length.compute()
            el_ = [oracle.length(kind, el) for el in cs.view]
            if list(gl.index) != list(df.index) or not all(
                    (math.isnan(float(a)) and math.isnan(float(b))) or abs(float(a) - float(b)) <= 1e-12 * max(1.0, abs(float(b)))
                    for a, b in zip(gl.values, el_)):
                out.append(V(f'dask.length/{tag}', f'{list(gl.values)} expected {el_}', recipe))
            bx = gen.box(rng)
            if rng.random() < 0.35:
                bx = (-100.0, -100.0, 100.0, 100.0)      # every partition lies inside the box: missing / empty rows stay out
            eff = oracle.norm_box(bx)
            exp = [i for i, el in enumerate(cs.view) if oracle.intersects_bounds(kind, el, eff)]
            got = ddf.cx[min(bx[0], bx[2]):max(bx[0], bx[2]), min(bx[1], bx[3]):max(bx[1], bx[3])].compute()
            if sorted(got['v']) != exp:
                miss = [i for i in got['v'] if cs.view[i] is None or not oracle.flat_coords(kind, cs.view[i])]
                out.append(V(f'dask.cx/{"inert-row-returned" if miss and set(got["v"]) - set(exp) == set(miss) else "rows"}/{tag}',
                             f'box {bx}: got {sorted(got["v"])} expected {exp}', dict(recipe, box=bx)))
            gp = ddf.cx_partitions[min(bx[0], bx[2]):max(bx[0], bx[2]), min(bx[1], bx[3]):max(bx[1], bx[3])].compute()
            if not set(exp) <= set(gp['v']):
                out.append(V(f'dask.cx_partitions/{tag}', f'missing rows {set(exp) - set(gp["v"])}', dict(recipe, box=bx)))
            ib = g.intersects_bounds(bx).compute().values
            if [bool(x) for x in ib] != [i in exp for i in range(n)]:
                out.append(V(f'dask.intersects_bounds/{tag}', '', dict(recipe, box=bx)))
        except Exception as e:
            out.append(V(f'dask/raises-{type(e).__name__}/{tag}', f'{e}', recipe))
    return out


c_dask.n = {'quick': 40, 'thorough': 300}


@check(('C20', 'C06'), 'dask.active-geometry-through-operations')
def c_dask_active(rng):
    """a Dask frame whose active geometry is the second geometry column: the frames returned by cx, row filters and
    column subsets keep that column active (at the Dask level, in every partition, after compute), and spatial
    operations chained on them use it"""
    import dask
    import spatialpandas as sp
    kind = rng.choice([k for k in gen.KINDS if k != 'point'])
    n = rng.choice([4, 6, 9])
    cs = gen.case(kind, rng, derive=False, n=n, p_missing=0.1, p_empty=0.0)
    far = [[1000.0 + i, 1000.0 + i] for i in range(n)]           # first geometry column: points far away from the shapes
    df = sp.GeoDataFrame({'p0': gen.build('point', far), 'v': list(range(n)), 'shape': cs.arr})
    npart = rng.choice([1, 2, 3])
    how = rng.choice(['pandas-then-dask', 'dask-set_geometry'])
    recipe = {'shape': cs.recipe, 'npartitions': npart, 'how': how}
    out = []
    with dask.config.set(scheduler='synchronous'):
        try:
            if how == 'pandas-then-dask':
                ddf = _ddf(df.set_geometry('shape'), npart)
            else:
                ddf = _ddf(df, npart).set_geometry('shape')
            bx = gen.box(rng)
            lo_x, lo_y, hi_x, hi_y = oracle.norm_box(bx)
            big = (-2000.0, -2000.0, 3000.0, 3000.0)
            ops = {
                'cx': lambda d: d.cx[lo_x:hi_x, lo_y:hi_y],
                'cx-everything': lambda d: d.cx[big[0]:big[2], big[1]:big[3]],
                'row-filter': lambda d: d[d['v'] >= 1],
                'column-subset': lambda d: d[['shape', 'v']],
                'sort': lambda d: d.sort_values('v', ascending=False),
                'copy': lambda d: d.copy(),
            }
            nm = rng.choice(sorted(ops))
            r = ops[nm](ddf)
            if not hasattr(r, 'geometry') or r.geometry.name != 'shape':
                out.append(V(f'dask.active-geometry/{nm}/dask-level', f'{getattr(getattr(r, "geometry", None), "name", None)}', dict(recipe, box=bx)))
            whole = r.compute()
            if not isinstance(whole, sp.GeoDataFrame) or whole.geometry.name != 'shape':
                out.append(V(f'dask.active-geometry/{nm}/computed', f'{type(whole).__name__}', dict(recipe, box=bx)))
            for k in range(r.npartitions):
                pf = r.partitions[k].compute()
                if len(pf) and (not isinstance(pf, sp.GeoDataFrame) or pf.geometry.name != 'shape'):
                    out.append(V(f'dask.active-geometry/{nm}/partition', f'partition {k}', dict(recipe, box=bx)))
                    break
            rows = [int(v) for v in whole['v']]
            # a spatial operation chained on the result uses the active column
            bx2 = gen.box(rng)
            eff2 = oracle.norm_box(bx2)
            exp = sorted(i for i in rows if oracle.intersects_bounds(kind, cs.view[i], eff2))
            got = sorted(int(v) for v in r.cx[eff2[0]:eff2[2], eff2[1]:eff2[3]].compute()['v'])
            if got != exp:
                out.append(V(f'dask.active-geometry/{nm}/chained-cx', f'box {bx2}: got {got} expected {exp}', dict(recipe, box=bx, box2=bx2)))
            tb = oracle.total_bounds(kind, [cs.view[i] for i in rows])
            gtb = r.geometry.total_bounds
            if not all(nan_eq(a, b) for a, b in zip(gtb, tb)):
                out.append(V(f'dask.active-geometry/{nm}/total_bounds', f'{tuple(gtb)} vs {tb}', dict(recipe, box=bx)))
        except Exception as e:
            out.append(V(f'dask.active-geometry/raises-{type(e).__name__}', f'{e}', recipe))
    return out


c_dask_active.n = {'quick': 30, 'thorough': 200}


@check(('C20',), 'dask.derived-frame-leaves-source')
def c_dask_source_untouched(rng):
    """deriving a frame with another active geometry (set_geometry) and computing it must not change the frame it
    was derived from - observable when the source's partitions are shared objects (persisted frames)"""
    import dask
    import spatialpandas as sp
    kind = rng.choice([k for k in gen.KINDS if k != 'point'])
    n = rng.choice([4, 6])
    cs = gen.case(kind, rng, derive=False, n=n, p_missing=0.0, p_empty=0.0)
    pts = [[float(i), float(i % 3)] for i in range(n)]
    df = sp.GeoDataFrame({'p0': gen.build('point', pts), 'v': list(range(n)), 'shape': cs.arr})
    npart = rng.choice([1, 2, 3])
    recipe = {'shape': cs.recipe, 'npartitions': npart}
    out = []
    with dask.config.set(scheduler='synchronous'):
        try:
            src = _ddf(df, npart).persist()
            other = src.set_geometry('shape')
            other.compute()
            if other.geometry.name != 'shape' or other.compute().geometry.name != 'shape':
                out.append(V('dask.set_geometry/derived-frame', '', recipe))
            names = [src.partitions[k].compute().geometry.name for k in range(src.npartitions)]
            if any(nm != 'p0' for nm in names) or src.geometry.name != 'p0' or src.compute().geometry.name != 'p0':
                out.append(V('dask.set_geometry/source-changed', f'{names}', recipe))
            got = sorted(int(v) for v in src.cx[0.5:2.5, -0.5:2.5].compute()['v'])
            exp = [i for i in range(n) if 0.5 <= pts[i][0] <= 2.5]
            if got != exp:
                out.append(V('dask.set_geometry/source-cx', f'got {got} expected {exp}', recipe))
        except Exception as e:
            out.append(V(f'dask.set_geometry/raises-{type(e).__name__}', f'{e}', recipe))
    return out


c_dask_source_untouched.n = {'quick': 12, 'thorough': 80}


@check(('C09', 'C17', 'C20'), 'dask.pack_partitions')
def c_pack(rng):
    import dask
    import spatialpandas as sp
    kind = rng.choice(gen.KINDS)
    cs = gen.case(kind, rng, derive=False, n=rng.choice([4, 6, 9, 12]), p_missing=0.15, p_empty=0.0)
    other = gen.case('point', rng, derive=False, n=len(cs.view), p_missing=0.0)
    n = len(cs.view)
    active_second = rng.random() < 0.5
    cols = {'p0': other.arr, 'v': list(range(n)), 'shape': cs.arr}
    df = sp.GeoDataFrame(cols)
    # the active geometry is switched on the pandas frame before it is partitioned, or only on the Dask frame
    switch = rng.choice(['pandas', 'dask']) if active_second else 'none'
    if switch == 'pandas':
        df = df.set_geometry('shape')
    act = 'shape' if active_second else 'p0'
    akind, aview = (kind, cs.view) if active_second else ('point', other.view)
    npart_in = rng.choice([1, 2, 3])
    npart_out = rng.choice([1, 2, 3])
    p = rng.choice([1, 2, 5, 10, 16, 17, 20])
    recipe = {'shape': cs.recipe, 'points': other.recipe, 'active': act, 'switch': switch, 'npart_in': npart_in, 'npart_out': npart_out, 'p': p}
    tag = f'{"active-not-first" if active_second else "active-first"}/{region_of(aview)}'
    out = []
    with dask.config.set(scheduler='synchronous'):
        try:
            ddf = _ddf(df, npart_in)
            if active_second:
                ddf = ddf.set_geometry('shape')
            packed = ddf.pack_partitions(npartitions=npart_out, p=p)
            parts = [packed.partitions[i].compute() for i in range(packed.npartitions)]
        except Exception:
            # "when the call raises instead of returning ... nothing is claimed" (C09)
            return []
    allrows = pd.concat(parts)
    if sorted(allrows['v']) != list(range(n)):
        out.append(V(f'dask.pack_partitions/rows-lost-or-duplicated/{tag}', f'{sorted(allrows["v"])}', recipe))
    if packed.npartitions != npart_out:
        out.append(V(f'dask.pack_partitions/partition-count/{tag}', f'{packed.npartitions} vs {npart_out}', recipe))
    idx = list(allrows.index)
    if idx != sorted(idx):
        out.append(V(f'dask.pack_partitions/not-sorted/{tag}', f'{idx}', recipe))
    exp_d = df[act].array.hilbert_distance(total_bounds=list(oracle.total_bounds(akind, aview)), p=p)
    got_d = {int(v): int(i) for v, i in zip(allrows['v'], allrows.index)}
    bad = [i for i in range(n) if aview[i] is not None and got_d.get(i) != int(exp_d[i])]
    if bad:
        out.append(V(f'dask.pack_partitions/distance-of-active-geometry/{tag}', f'rows {bad}', recipe))
    return out


c_pack.n = {'quick': 25, 'thorough': 150}


@check(('C09', 'C08'), 'dask.pack_partitions-reference-distance')
def c_pack_reference(rng):
    """pack_partitions on point frames whose total extent is a power of two (or zero in one direction, widened by one):
    the index must be each row's Hilbert distance as computed by an independent reference (exact cell + classical
    curve), for frames lying on one horizontal or vertical line too"""
    import dask
    from fractions import Fraction as Fr
    import spatialpandas as sp
    from .checks_array import hilbert_xy2d
    shape = rng.choice(['square', 'square', 'horizontal', 'vertical'])
    ext = rng.choice([8, 16])
    n = rng.choice([4, 6, 9])
    q = lambda: rng.randint(0, 4 * ext) / 4.0
    pts = [[q(), q()] for _ in range(n)]
    c0 = float(rng.randint(-3, 3))
    if shape == 'horizontal':
        pts = [[x, c0] for x, _ in pts]
    elif shape == 'vertical':
        pts = [[c0, y] for _, y in pts]
    # pin the extent
    if shape != 'vertical':
        pts[0][0], pts[1][0] = 0.0, float(ext)
    if shape != 'horizontal':
        pts[0][1], pts[1][1] = 0.0, float(ext)
    rng.shuffle(pts)
    p = rng.choice([1, 2, 3, 5])
    side = 1 << p
    xs, ys = [a for a, _ in pts], [b for _, b in pts]
    x0, y0 = min(xs), min(ys)
    ew = (max(xs) - x0) or 1.0
    eh = (max(ys) - y0) or 1.0

    def cell(v, lo, e):
        c = int((Fr(v) - Fr(lo)) * side / Fr(e))
        return min(max(c, 0), side - 1)
    exp = [hilbert_xy2d(p, cell(a, x0, ew), cell(b, y0, eh)) for a, b in pts]
    npart_in, npart_out = rng.choice([1, 2, 3]), rng.choice([1, 2])
    recipe = {'points': pts, 'p': p, 'npart_in': npart_in, 'npart_out': npart_out, 'shape': shape}
    df = sp.GeoDataFrame({'geometry': gen.build('point', pts), 'v': list(range(n))})
    akind = rng.choice(['point', 'multipoint', 'line'])
    if akind != 'point':
        # the same centres as one-vertex multipoints / degenerate two-vertex lines (list-backed arrays)
        els = [[a, b] if akind == 'multipoint' else [a, b, a, b] for a, b in pts]
        tail = [[500.0, 600.0] if akind == 'multipoint' else [500.0, 600.0, 700.0, 800.0]] * 2
        if rng.random() < 0.5:
            # a head slice of a longer frame: the dropped trailing rows lie far outside the kept extent
            full = sp.GeoDataFrame({'geometry': gen.build(akind, els + tail), 'v': list(range(n + 2))})
            df = full.iloc[:n]
            recipe['derivation'] = 'head-slice'
        else:
            df = sp.GeoDataFrame({'geometry': gen.build(akind, els), 'v': list(range(n))})
        recipe['kind'] = akind
    with dask.config.set(scheduler='synchronous'):
        try:
            packed = _ddf(df, npart_in).pack_partitions(npartitions=npart_out, p=p)
            allrows = packed.compute()
        except Exception:
            return []          # "when the call raises instead of returning ... nothing is claimed" (C09)
    got = {int(v): int(i) for v, i in zip(allrows['v'], allrows.index)}
    bad = [i for i in range(n) if got.get(i) != exp[i]]
    if bad:
        return [V(f'dask.pack_partitions/reference-distance/{shape}', f'rows {bad}: got {[got.get(i) for i in bad]} expected {[exp[i] for i in bad]}', recipe)]
    return []


c_pack_reference.n = {'quick': 25, 'thorough': 150}


@check(('C12', 'C20', 'C06', 'C13'), 'dask.parquet-bounds-and-geometry')
def c_parquet(rng):
    import shutil
    import tempfile
    import dask
    import spatialpandas as sp
    from spatialpandas.io import read_parquet_dask
    kind = rng.choice(gen.KINDS)
    n = rng.choice([6, 12, 14])
    cs = gen.case(kind, rng, derive=False, n=n, p_missing=0.1, p_empty=0.0)
    other = gen.case('point', rng, derive=False, n=n, p_missing=0.0)
    df = sp.GeoDataFrame({'pts': other.arr, 'v': list(range(n)), 'shape': cs.arr})
    npart = rng.choice([2, 3, 12])
    geom = rng.choice([None, 'pts', 'shape'])
    writer = rng.choice(['to_parquet', 'to_parquet', 'pack_partitions_to_parquet'])
    recipe = {'shape': cs.recipe, 'points': other.recipe, 'npartitions': npart, 'geometry': geom, 'writer': writer}
    out = []
    d = tempfile.mkdtemp(prefix='rtc_pq_')
    try:
        with dask.config.set(scheduler='synchronous'):
            path = d + '/ds.parq'
            if writer == 'to_parquet':
                ddf = _ddf(df, npart)
                ddf.to_parquet(path)
            else:
                # the packed writer: rows are re-partitioned along the Hilbert curve of the active (first) geometry
                # column; which rows end up in which part is read back from the parts themselves
                _ddf(df, rng.choice([1, 2, 3])).pack_partitions_to_parquet(path, npartitions=min(npart, 4), p=rng.choice([3, 10]))
            r = read_parquet_dask(path, geometry=geom) if geom else read_parquet_dask(path)
            act = geom or 'pts'
            if r.geometry.name != act:
                out.append(V(f'parquet.read-geometry-meta/{geom}', f'{r.geometry.name}', recipe))
            parts = [r.partitions[i].compute() for i in range(r.npartitions)]
            for col, ckind, cview in (('pts', 'point', other.view), ('shape', kind, cs.view)):
                pb = r[col].partition_bounds
                for k, pf in enumerate(parts):
                    rows = list(pf['v'])
                    exp = oracle.total_bounds(ckind, [cview[i] for i in rows])
                    if not all(nan_eq(a, b) for a, b in zip(pb.iloc[k].values, exp)):
                        out.append(V(f'parquet.partition_bounds/{col}', f'partition {k}: {list(pb.iloc[k].values)} vs {exp}', recipe))
                        break
            for k, pf in enumerate(parts):
                if isinstance(pf, sp.GeoDataFrame) and pf.geometry.name != act:
                    out.append(V(f'parquet.partition-active-geometry/{"first" if act == "pts" else "not-first"}', f'partition {k}: {pf.geometry.name} vs {act}', recipe))
                    break
            try:
                whole = r.compute()
                if whole.geometry.name != act:
                    out.append(V(f'parquet.compute-active-geometry/{"first" if act == "pts" else "not-first"}', f'{whole.geometry.name}', recipe))
            except Exception as e:
                out.append(V(f'parquet.compute-active-geometry/raises-{type(e).__name__}/{"first" if act == "pts" else "not-first"}', f'{e}', recipe))
            # pruning
            aview, akind = (other.view, 'point') if act == 'pts' else (cs.view, kind)
            bx = gen.box(rng)
            eff = oracle.norm_box(bx)
            rb = read_parquet_dask(path, geometry=geom, bounds=bx) if geom else read_parquet_dask(path, bounds=bx)
            got = set(rb.compute()['v']) if rb.npartitions else set()
            need = {i for i, el in enumerate(aview) if oracle.intersects_bounds(akind, el, eff)}
            if not need <= got:
                out.append(V('parquet.pruning-lost-rows', f'box {bx}: missing {need - got}', dict(recipe, box=bx)))
            # the pruned read keeps the requested active geometry in every partition and in the computed frame
            if rb.npartitions and got:
                for k in range(rb.npartitions):
                    pf = rb.partitions[k].compute()
                    if isinstance(pf, sp.GeoDataFrame) and len(pf) and pf.geometry.name != act:
                        out.append(V(f'parquet.pruned-partition-active-geometry/{"first" if act == "pts" else "not-first"}',
                                     f'partition {k}: {pf.geometry.name} vs {act}', dict(recipe, box=bx)))
                        break
                try:
                    if rb.compute().geometry.name != act:
                        out.append(V(f'parquet.pruned-compute-active-geometry/{"first" if act == "pts" else "not-first"}', '', dict(recipe, box=bx)))
                except Exception as e:
                    out.append(V(f'parquet.pruned-compute-active-geometry/raises-{type(e).__name__}', f'{e}', dict(recipe, box=bx)))
                prts = [rb.partitions[k].compute() for k in range(rb.npartitions)]
                # every geometry column of the pruned frame - not only the active one - describes the loaded rows
                for col, ckind, cview in (('pts', 'point', other.view), ('shape', kind, cs.view)):
                    tag = 'active' if col == act else 'other-column'
                    pbk = rb[col].partition_bounds
                    if len(pbk) != rb.npartitions:
                        out.append(V(f'parquet.pruned-partition_bounds/{tag}/row-count', f'{len(pbk)} rows for {rb.npartitions} partitions', dict(recipe, box=bx)))
                        continue
                    bad = False
                    for k, pf in enumerate(prts):
                        e = oracle.total_bounds(ckind, [cview[i] for i in pf['v']])
                        if not all(nan_eq(a, b) for a, b in zip(pbk.iloc[k].values, e)):
                            out.append(V(f'parquet.pruned-partition_bounds/{tag}', f'partition {k}: {list(pbk.iloc[k].values)} vs {e}', dict(recipe, box=bx)))
                            bad = True
                            break
                    if bad:
                        continue
                    loaded = [i for pf in prts for i in pf['v']]
                    e = oracle.total_bounds(ckind, [cview[i] for i in loaded])
                    tb = rb[col].total_bounds
                    if not all(nan_eq(a, b) for a, b in zip(tb, e)):
                        out.append(V(f'parquet.pruned-total_bounds/{tag}', f'{tuple(tb)} vs {e}', dict(recipe, box=bx)))
                    bx2 = gen.box(rng)
                    eff2 = oracle.norm_box(bx2)
                    try:
                        sel = rb[col].cx[bx2[0]:bx2[2], bx2[1]:bx2[3]].compute()
                        gotrows = sorted(int(i) for i in sel.index)
                        idx_to_row = {}
                        for pf in prts:
                            for lab, v in zip(pf.index, pf['v']):
                                idx_to_row.setdefault(int(lab), []).append(int(v))
                        exprows = sorted(int(lab) for pf in prts for lab, v in zip(pf.index, pf['v'])
                                         if oracle.intersects_bounds(ckind, cview[int(v)], eff2))
                        if gotrows != exprows:
                            out.append(V(f'parquet.pruned-series-cx/{tag}', f'box {bx2}: got {gotrows} expected {exprows}', dict(recipe, box=bx, box2=bx2)))
                    except Exception as ex:
                        out.append(V(f'parquet.pruned-series-cx/{tag}/raises-{type(ex).__name__}', f'{ex}', dict(recipe, box=bx, box2=bx2)))
    except Exception as e:
        out.append(V(f'parquet/raises-{type(e).__name__}', f'{e}', recipe))
    finally:
        shutil.rmtree(d, ignore_errors=True)
    return out


c_parquet.n = {'quick': 25, 'thorough': 150}


@check(('C06', 'C09', 'C12', 'C13', 'C17'), 'dask.row-filter-after-cached-bounds')
def c_dask_filter(rng):
    """multi-step: cache the partition bounds (partition_sindex / cx), filter rows, then query / pack the filtered
    frame and query the original again: cached extents of the unfiltered frame must not be reused"""
    import dask
    import spatialpandas as sp
    n = rng.choice([6, 8, 12])
    cs = gen.case('point', rng, derive=False, n=n, p_missing=0.0)
    df = sp.GeoDataFrame({'geometry': cs.arr, 'v': list(range(n))})
    npart = rng.choice([2, 3])
    xs = sorted(el[0] for el in cs.view)
    cut = xs[len(xs) // 2]
    recipe = dict(cs.recipe, npartitions=npart, cut=cut)
    out = []
    with dask.config.set(scheduler='synchronous'):
        try:
            ddf = _ddf(df, npart)
            _ = ddf.partition_sindex            # caches partition bounds + index on the frame
            keep = [i for i, el in enumerate(cs.view) if el[0] <= cut]
            if not keep or len(keep) == n:
                return []
            f = ddf[ddf.v.isin(keep)]
            exp_view = [cs.view[i] for i in keep]
            tb = oracle.total_bounds('point', exp_view)
            got = f.geometry.total_bounds
            if not all(nan_eq(a, b) for a, b in zip(got, tb)):
                out.append(V('dask.filtered-frame-total_bounds', f'{tuple(got)} vs {tb}', recipe))
            pb = f.geometry.partition_bounds
            parts = [f.partitions[i].compute() for i in range(f.npartitions)]
            for k, pf in enumerate(parts):
                e = oracle.total_bounds('point', [cs.view[i] for i in pf['v']])
                if not all(nan_eq(a, b) for a, b in zip(pb.iloc[k].values, e)):
                    out.append(V('dask.filtered-frame-partition_bounds', f'partition {k}: {list(pb.iloc[k].values)} vs {e}', recipe))
                    break
            # pack the filtered frame: distances relative to ITS extent
            try:
                packed = f.pack_partitions(npartitions=2, p=4).compute()
                exp_d = sp.GeoSeries(gen.build('point', exp_view)).array.hilbert_distance(total_bounds=list(tb), p=4)
                gotd = {int(v): int(i) for v, i in zip(packed['v'], packed.index)}
                if [gotd[i] for i in keep] != [int(x) for x in exp_d]:
                    out.append(V('dask.filtered-frame-pack-distances', f'{[gotd[i] for i in keep]} vs {[int(x) for x in exp_d]}', recipe))
            except Exception:
                pass
            # the original frame still answers correctly after the filtered one was queried
            far = max(el[0] for el in cs.view)
            exp = [i for i, el in enumerate(cs.view) if el[0] >= far]
            g = ddf.cx[far:far + 1, -100:100].compute()
            if sorted(g['v']) != exp:
                out.append(V('dask.original-frame-cx-after-filter', f'{sorted(g["v"])} vs {exp}', recipe))
        except Exception as e:
            out.append(V(f'dask.row-filter/raises-{type(e).__name__}', f'{e}', recipe))
    return out


c_dask_filter.n = {'quick': 15, 'thorough': 100}


@check(('C12', 'C06'), 'dask.parquet-several-datasets')
def c_parquet_multi(rng):
    """several datasets combined by a list (in a non-sorted order) or a glob: bounds rows follow the partitions as
    they are loaded"""
    import shutil
    import tempfile
    import dask
    import spatialpandas as sp
    from spatialpandas.io import read_parquet_dask
    out = []
    d = tempfile.mkdtemp(prefix='rtc_pqm_')
    names = rng.choice([['west', 'east'], ['b', 'a'], ['ds1', 'ds10', 'ds2'], ['z', 'm', 'a']])
    recipe = {'names': names}
    try:
        with dask.config.set(scheduler='synchronous'):
            views = {}
            base = 0
            for nm in names:
                n = rng.choice([3, 4, 6])
                els = [[float(base + i), float(rng.randint(0, 5))] for i in range(n)]
                base += 100
                views[nm] = els
                df = sp.GeoDataFrame({'geometry': gen.build('point', els), 'v': [int(e[0]) for e in els]})
                _ddf(df, rng.choice([1, 2])).to_parquet(f'{d}/{nm}.parq')
            mode = rng.choice(['list', 'glob'])
            recipe['mode'] = mode
            paths = [f'{d}/{nm}.parq' for nm in names] if mode == 'list' else f'{d}/*.parq'
            r = read_parquet_dask(paths)
            pb = r.geometry.partition_bounds
            allv = {int(e[0]): e for els in views.values() for e in els}
            parts = [r.partitions[k].compute() for k in range(r.npartitions)]
            if len(pb) != len(parts):
                out.append(V(f'parquet.multi-dataset-bounds-count/{mode}', f'{len(pb)} vs {len(parts)}', recipe))
            for k, pf in enumerate(parts):
                e = oracle.total_bounds('point', [allv[int(v)] for v in pf['v']])
                if k < len(pb) and not all(nan_eq(a, b) for a, b in zip(pb.iloc[k].values, e)):
                    out.append(V(f'parquet.multi-dataset-partition_bounds/{mode}', f'partition {k}: {list(pb.iloc[k].values)} vs {e}', recipe))
                    break
            if mode == 'list':
                got = [int(v) for pf in parts for v in pf['v']]
                exp = [int(e[0]) for nm in names for e in views[nm]]
                if got != exp:
                    out.append(V('parquet.multi-dataset-order/list', f'{got} vs {exp}', recipe))
            nm = rng.choice(names)
            xs = [e[0] for e in views[nm]]
            bx = (min(xs) - 0.5, -1.0, max(xs) + 0.5, 6.0)
            rb = read_parquet_dask(paths, bounds=bx)
            gotv = sorted(int(v) for v in rb.compute()['v']) if rb.npartitions else []
            if not set(int(x) for x in xs) <= set(gotv):
                out.append(V(f'parquet.multi-dataset-pruning-lost-rows/{mode}', f'{gotv} misses {xs}', recipe))
    except Exception as e:
        out.append(V(f'parquet.multi-dataset/raises-{type(e).__name__}', f'{e}', recipe))
    finally:
        shutil.rmtree(d, ignore_errors=True)
    return out


c_parquet_multi.n = {'quick': 10, 'thorough': 60}
