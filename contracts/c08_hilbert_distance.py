"""C08 - numeric core of hilbert_distance: utils._data2coord and rtree._distances_from_bounds.

cell(v) = clamp(trunc((v - lo) * (n / (hi - lo))), 0, n-1)  for finite v; any value in [0, n-1] for a non-finite v.
_distances_from_bounds: per row, the cell of the bbox mid-point per axis (degenerate extent widened by 1),
then the Hilbert distance of that cell (distances_from_coordinates: contract from C07, here as an assumed
math-mode view HENC of the bit-vector function proved there).
"""
import z3

from pyvc.contracts import Arr, Contract, Flt, Int, Loop, Tup
from pyvc.values import (FIN, SBool, SFloat, SInt, And, Implies, Ite, Not, Or, forall, pow2, to_float)
from pyvc.builtins_np import float_to_int

P = ('C08',)
UT = 'spatialpandas/utils.py'
RT = 'spatialpandas/spatialindex/rtree.py'
HC = 'spatialpandas/spatialindex/hilbert_curve.py'

from .c07_vector import ENC
HENC = ENC[2]   # (p, x, y) -> distance


def cell_of(v, lo, hi, n):
    """grid cell of the finite value v in [lo, hi) split into n cells, clamped to the border cells"""
    w = ((v - lo) * (to_float(n) / (hi - lo))).val
    t = SInt(z3.If(w >= 0, z3.ToInt(w), -z3.ToInt(-w)))      # mathematical truncation (no machine-integer range)
    return Ite(t < 0, SInt(0), Ite(t > n - 1, n - 1, t))


def register(reg):
    def d2c_req(c):
        return [('positive-cells', And(c.n >= 1, c.n <= 2 ** 32)), ('extent-not-degenerate', c.val_range[1] != c.val_range[0]),
                ('unit-stride', c.vals.stride == 1)]

    def d2c_ens(c, r):
        lo, hi = c.val_range
        return [('length', r.n == c.vals.n),
                ('in-grid', forall('int', lambda k: Implies(And(k >= 0, k < r.n), And(r[k] >= 0, r[k] <= c.n - 1)))),
                ('cell', forall('int', lambda k: Implies(And(k >= 0, k < r.n, c.vals[k].is_fin()),
                                                         r[k] == cell_of(c.vals[k], lo, hi, c.n))))]

    reg.add(Contract(UT + '::_data2coord',
                     [('vals', Arr('float')), ('val_range', Tup(Flt(finite=True), Flt(finite=True))), ('n', Int())],
                     returns=Arr('int', 'int64'), requires=d2c_req, ensures=d2c_ens, props=P))

    # distances_from_coordinates: proved in c07_vector (row k = the scalar encoder of row k), HENC = its n=2 view

    # _distances_from_bounds(bounds, total_bounds, p) for 2-d boxes
    def dfb_req(c):
        tb = c.total_bounds
        return [('p-range', And(c.p >= 1, c.p <= 31)), ('pow2', And(pow2(c.p) >= 2, pow2(c.p) <= 2 ** 31, pow2(2 * c.p) == pow2(c.p) * pow2(c.p)))]

    def dfb_ens(c, r):
        tb = c.total_bounds
        b = c.bounds
        side = pow2(c.p)
        one = SFloat.const(1.0)
        xlo, xhi = tb[0], Ite(tb[0] == tb[2], tb[2] + one, tb[2])
        ylo, yhi = tb[1], Ite(tb[1] == tb[3], tb[3] + one, tb[3])

        def row(k):
            mx = (b[k, 0] + b[k, 2]) / SFloat.const(2.0)
            my = (b[k, 1] + b[k, 3]) / SFloat.const(2.0)
            fin = And(b[k, 0].is_fin(), b[k, 1].is_fin(), b[k, 2].is_fin(), b[k, 3].is_fin())
            cx, cy = cell_of(mx, xlo, xhi, side), cell_of(my, ylo, yhi, side)
            return And(r[k] >= 0, r[k] < pow2(2 * c.p),
                       Implies(fin, r[k] == SInt(HENC(c.p.z(), cx.z(), cy.z()))))
        return [('length', r.n == b.shape[0]),
                ('rows', forall('int', lambda k: Implies(And(k >= 0, k < r.n), row(k))))]

    reg.add(Contract(RT + '::_distances_from_bounds',
                     [('bounds', Arr('float', ndim=2, cols=4)),
                      ('total_bounds', Tup(*[Flt(finite=True)] * 4)), ('p', Int())],
                     returns=Arr('int', 'int64'), requires=dfb_req, ensures=dfb_ens, props=P,
                     note='total_bounds finite (a NaN extent - empty array - is outside this contract)'))
