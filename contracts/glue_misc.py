"""Glue methods under contract: GeometryArray.hilbert_distance (C08) and _BaseCoordinateIndexer._get_bounds (C04).
Inputs whose python type varies (None / tuple / list / ndarray; scalar / slice with optional ends) are enumerated
as configurations; the numeric contents are symbolic."""
import itertools

import z3

from pyvc import state as st
from pyvc.contracts import Arr, Contract, Flt, Int, ListOf, NoneSort, Rec, Sort, Tup
from pyvc.values import (FIN, NONE, SArr, SBool, SFloat, SInt, SRecord, STuple, And, Implies, Ite, Not, Or, forall,
                         fresh_name, pow2, to_float)
from .glue_rep import ListGeomArray, OUT, rep_of, vals_of, well_formed
from .c13_bounds import total_bounds_spec
from .c08_hilbert_distance import HENC, cell_of

BASE = 'spatialpandas/geometry/base.py'
RT = 'spatialpandas/spatialindex/rtree.py'
F4 = Tup(*[Flt(finite=True)] * 4)


def register(reg):
    # ------------------------------------------------------------ GeometryArray.hilbert_distance
    HD_CFG = [{'levels': L, 'tb': k} for L in (1, 2) for k in ('none', 'tuple', 'list', 'array')]

    def hd_params(cfg):
        tb = {'none': NoneSort(), 'tuple': F4, 'list': ListOf(Flt(finite=True), 4),
              'array': Arr('float', finite=True, conc_len=4)}[cfg.get('tb', 'none') if isinstance(cfg.get('tb'), str) else 'none']
        return [('self', ListGeomArray(cfg.get('levels', 1) if isinstance(cfg.get('levels'), int) else 1)),
                ('total_bounds', tb), ('p', Int())]

    def tb_items(c):
        if c.config['tb'] == 'none':
            L = c.config['levels']
            return total_bounds_spec(vals_of(c.self), OUT(c.self, L, SInt(0)), OUT(c.self, L, rep_of(c.self).length))
        tb = c.total_bounds
        if c.config['tb'] == 'array':
            return tuple(tb[k] for k in range(4))
        return tuple(tb)

    def hd_req(c):
        L = c.config['levels']
        out = well_formed(c.self, L) + [('p-range', And(c.p >= 1, c.p <= 31)),
                                        ('pow2', And(pow2(c.p) >= 2, pow2(c.p) <= 2 ** 31, pow2(2 * c.p) == pow2(c.p) * pow2(c.p)))]
        if c.config['tb'] == 'none':
            out.append(('array-has-a-finite-extent', And(*[x.is_fin() for x in tb_items(c)])))
        return out

    def hd_ens(c, r):
        L = c.config['levels']
        rep = rep_of(c.self)
        v = vals_of(c.self)
        tb = tb_items(c)
        one = SFloat.const(1.0)
        xlo, xhi = tb[0], Ite(tb[0] == tb[2], tb[2] + one, tb[2])
        ylo, yhi = tb[1], Ite(tb[1] == tb[3], tb[3] + one, tb[3])
        side = pow2(c.p)

        def row(k):
            b = total_bounds_spec(v, OUT(c.self, L, k), OUT(c.self, L, k + 1))
            fin = And(*[x.is_fin() for x in b])
            mx = (b[0] + b[2]) / SFloat.const(2.0)
            my = (b[1] + b[3]) / SFloat.const(2.0)
            cx, cy = cell_of(mx, xlo, xhi, side), cell_of(my, ylo, yhi, side)
            return And(r[k] >= 0, r[k] < pow2(2 * c.p), Implies(fin, r[k] == SInt(HENC(c.p.z(), cx.z(), cy.z()))))
        return [('length', r.n == rep.length),
                ('cell-of-bbox-centre', forall('int', lambda k: Implies(And(k >= 0, k < rep.length), row(k))))]

    reg.add(Contract(BASE + '::GeometryArray.hilbert_distance', hd_params, returns=Arr('int', 'int64'),
                     requires=hd_req, ensures=hd_ens, configs=HD_CFG, props=('C08',),
                     note='total_bounds is not in `modifies`: the frame obligations are "the caller\'s list / array is '
                          'unchanged"; a tuple is accepted'))

    # ------------------------------------------------------------ _BaseCoordinateIndexer._get_bounds
    kinds = ['scalar', 'both', 'start', 'stop', 'neither']
    GB_CFG = [{'xs': a, 'ys': b, 'sindex': s, 'step': False} for a in kinds for b in kinds for s in (False, True)]
    GB_CFG += [{'xs': 'both', 'ys': 'both', 'sindex': False, 'step': True}]

    class IndexerSort(Sort):
        def __init__(self, sindex):
            self.sindex = sindex

        def make(self, state, name):
            # total_bounds of the indexed array / of its spatial index: four extended reals (NaN for an empty array).
            # They are plain fields of the stand-in objects (the C13 / C03 contracts say what they are).
            def tb(nm):
                fs = [SFloat.fresh(f'{name}_{nm}{k}') for k in range(4)]
                return STuple(fs), [f.tag_constraint() for f in fs]
            t1, a1 = tb('objtb')
            obj = SRecord('GeometryArrayTB', {'total_bounds': t1})
            assumptions = list(a1)
            sx = NONE
            if self.sindex:
                t2, a2 = tb('sxtb')
                sx = SRecord('HilbertRtree', {'total_bounds': t2})
                assumptions += a2
            return SRecord('_CoordinateIndexer', {'_sindex': sx, '_obj': obj}), assumptions

    class KeyItem(Sort):
        def __init__(self, kind, step=False):
            self.kind = kind
            self.step = step

        def make(self, state, name):
            f = lambda nm: SFloat.fresh(name + nm, finite=True)
            if self.kind == 'scalar':
                return f('_v'), []
            start = f('_start') if self.kind in ('both', 'start') else NONE
            stop = f('_stop') if self.kind in ('both', 'stop') else NONE
            return SRecord('slice', {'start': start, 'stop': stop, 'step': SInt(2) if self.step else NONE}), []

    def gb_params(cfg):
        if not isinstance(cfg.get('xs'), str):
            cfg = {'xs': 'both', 'ys': 'both', 'sindex': False, 'step': False}
        return [('self', IndexerSort(cfg['sindex'])), ('key', Tup(KeyItem(cfg['xs'], cfg['step']), KeyItem(cfg['ys'])))]

    def ends(item, lo_default, hi_default):
        if isinstance(item, SFloat):
            return item, item
        s0 = item.start if not isinstance(item._rec.fields['start'], type(NONE)) else lo_default
        s1 = item.stop if not isinstance(item._rec.fields['stop'], type(NONE)) else hi_default
        return s0, s1

    def gb_ens(c, r):
        src = c.self._sindex if c.config['sindex'] else c.self._obj
        tb = src.total_bounds
        X0, X1 = ends(c.key[0], tb[0], tb[2])
        Y0, Y1 = ends(c.key[1], tb[1], tb[3])
        # "an omitted slice end means the data's total extent on that side and reversed ends are swapped"
        lox, hix = Ite(X1 < X0, X1, X0), Ite(X1 < X0, X0, X1)
        loy, hiy = Ite(Y1 < Y0, Y1, Y0), Ite(Y1 < Y0, Y0, Y1)
        return [('x0', r[0].same(lox)), ('x1', r[1].same(hix)), ('y0', r[2].same(loy)), ('y1', r[3].same(hiy))]

    reg.add(Contract(BASE + '::_BaseCoordinateIndexer._get_bounds', gb_params, returns=Tup(Flt(), Flt(), Flt(), Flt()),
                     ensures=gb_ens, configs=GB_CFG, props=('C04',),
                     raises=lambda c: [('ValueError', SBool(bool(c.config['step'])))]))



_TB = {}


def tb_of(recview, k):
    """the k-th total-bounds component of an object, as an uninterpreted extended real attached to the object"""
    rid = recview._rec.rid
    if (rid, k) not in _TB:
        _TB[(rid, k)] = SFloat(z3.Int(fresh_name(f'tb{k}_t')) % 4, z3.Real(fresh_name(f'tb{k}_v')))
    return _TB[(rid, k)]
