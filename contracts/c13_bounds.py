"""C13 - bounds kernels (spatialpandas/geometry/_algorithms/bounds.py).

Spec functions (extended reals): MINV/MAXV(A, T, lo, hi) = python-min/max fold over the FINITE cells
A[lo], A[lo+2], ... below hi, starting from +INF / -INF.  The declarative reading (lower bound of
every finite cell, attained, +INF iff no finite cell) is proved about the spec alone by the
inductive lemmas at the bottom; the kernels are proved equal to the spec (loop invariants).
"""
import z3

from pyvc.contracts import Arr, Contract, Flt, Int, Lemma, Loop, RecSpec, Tup
from pyvc.values import (FIN, NAN, NINF, PINF, SBool, SFloat, SInt, And, Implies, Ite, Not, Or, forall, int_sort,
                         to_int)

P = ('C13', 'C17')
FILE = 'spatialpandas/geometry/_algorithms/bounds.py'

AV = z3.ArraySort(z3.IntSort(), z3.RealSort())
AT = z3.ArraySort(z3.IntSort(), z3.IntSort())


def _cell(A, T, k):
    k = to_int(k)
    return SFloat(z3.Select(T, k.z()), z3.Select(A, k.z()))


def _minv_body(self, A, T, lo, hi):
    x = _cell(A, T, hi - 2)
    rest = self(A, T, lo, hi - 2)
    # python/numba: min(acc, x) = x if x < acc else acc  (only applied to finite x)
    return Ite(hi <= lo, SFloat.const(float('inf')),
               Ite(x.is_fin(), Ite(x < rest, x, rest), rest))


def _maxv_body(self, A, T, lo, hi):
    x = _cell(A, T, hi - 2)
    rest = self(A, T, lo, hi - 2)
    return Ite(hi <= lo, SFloat.const(float('-inf')),
               Ite(x.is_fin(), Ite(x > rest, x, rest), rest))


MINV = RecSpec('MINV', [AV, AT, 'int', 'int'], 'float', _minv_body)
MAXV = RecSpec('MAXV', [AV, AT, 'int', 'int'], 'float', _maxv_body)

def _wit_body(F, better):
    def body(self, A, T, lo, hi):
        x = _cell(A, T, hi - 2)
        rest = F(A, T, lo, hi - 2)
        return Ite(hi <= lo, SInt(-1), Ite(And(x.is_fin(), better(x, rest)), hi - 2, self(A, T, lo, hi - 2)))
    return body


# index of the cell at which the minimum / maximum is attained (-1 if there is no finite cell)
WITMIN = RecSpec('WITMIN', [AV, AT, 'int', 'int'], 'int', _wit_body(MINV, lambda x, r: x < r))
WITMAX = RecSpec('WITMAX', [AV, AT, 'int', 'int'], 'int', _wit_body(MAXV, lambda x, r: x > r))

NANF = SFloat.const(float('nan'))


def ext_lo(v, lo, hi):
    """(min, max) of the finite cells of view v between logical positions lo..hi (step 2), NaN pair if none"""
    a, b = v.off + lo, v.off + hi
    mn, mx = MINV(v.A, v.T, a, b), MAXV(v.A, v.T, a, b)
    return Ite(mn.is_fin(), mn, NANF), Ite(mn.is_fin(), mx, NANF)


def total_bounds_spec(v, lo, hi):
    xmin, xmax = ext_lo(v, lo, hi)
    ymin, ymax = ext_lo(v, lo + 1, hi + 1)
    return xmin, ymin, xmax, ymax


def register(reg):
    # ------------------------------------------------------------ total_bounds_interleaved
    def tb_requires(c):
        return [('even-length', c.values.n % 2 == 0), ('unit-stride', c.values.stride == 1)]

    def tb_ensures(c, r):
        n = c.values.n
        exp = total_bounds_spec(c.values, SInt(0), n)
        return [(lbl, r[k].same(exp[k])) for k, lbl in enumerate(['xmin', 'ymin', 'xmax', 'ymax'])]

    def tb_inv(c):
        v = c.a.values
        a = v.off
        i = c.i
        return [
            ('i-range', And(i >= 0, i <= v.n, i % 2 == 0)),
            ('xmin', c.xmin.same(MINV(v.A, v.T, a, a + i))),
            ('xmax', c.xmax.same(MAXV(v.A, v.T, a, a + i))),
            ('ymin', c.ymin.same(MINV(v.A, v.T, a + 1, a + 1 + i))),
            ('ymax', c.ymax.same(MAXV(v.A, v.T, a + 1, a + 1 + i))),
        ]

    reg.add(Contract(
        FILE + '::total_bounds_interleaved',
        params=[('values', Arr('float'))],
        returns=Tup(Flt(), Flt(), Flt(), Flt()),
        requires=tb_requires, ensures=tb_ensures,
        loops={0: Loop(invariant=tb_inv, var='i')},
        props=P))

    # ------------------------------------------------------------ total_bounds_interleaved_1d
    def tb1_requires(c):
        return [('even-length', c.values.n % 2 == 0), ('unit-stride', c.values.stride == 1),
                ('offset', Or(c.offset == 0, c.offset == 1))]

    def tb1_ensures(c, r):
        v = c.values
        lo, hi = ext_lo(v, c.offset, v.n + c.offset)
        return [('vmin', r[0].same(lo)), ('vmax', r[1].same(hi))]

    def tb1_inv(c):
        v = c.a.values
        a = v.off + c.a.offset
        i = c.i
        return [
            ('i-range', And(i >= 0, i <= v.n, i % 2 == 0)),
            ('vmin', c.vmin.same(MINV(v.A, v.T, a, a + i))),
            ('vmax', c.vmax.same(MAXV(v.A, v.T, a, a + i))),
        ]

    reg.add(Contract(
        FILE + '::total_bounds_interleaved_1d',
        params=[('values', Arr('float')), ('offset', Int())],
        returns=Tup(Flt(), Flt()),
        requires=tb1_requires, ensures=tb1_ensures,
        loops={0: Loop(invariant=tb1_inv, var='i')},
        props=P))

    # ------------------------------------------------------------ bounds_interleaved
    def bi_requires(c):
        o, v = c.flat_value_offsets, c.flat_values
        return [
            ('at-least-one-offset', o.n >= 1),
            ('unit-stride', v.stride == 1),
            ('offsets-monotone-even-in-range', forall('int', lambda k: Implies(
                And(k >= 0, k < o.n - 1),
                And(o[k] >= 0, o[k] <= o[k + 1], o[k + 1] <= v.n, (o[k + 1] - o[k]) % 2 == 0)))),
        ]

    def bi_row_ok(c, b, k):
        o, v = c.flat_value_offsets, c.flat_values
        exp = total_bounds_spec(v, o[k], o[k + 1])
        return And(*[b[k, j].same(exp[j]) for j in range(4)])

    def bi_ensures(c, r):
        o = c.flat_value_offsets
        return [
            ('shape', And(r.shape[0] == o.n - 1, r.shape[1] == 4)),
            ('rows', forall('int', lambda k: Implies(And(k >= 0, k < o.n - 1), bi_row_ok(c, r, k)))),
        ]

    def bi_inv(c):
        o = c.a.flat_value_offsets
        i = c.i
        return [
            ('i-range', And(i >= 0, i <= o.n - 1)),
            ('rows-done', forall('int', lambda k: Implies(And(k >= 0, k < i), bi_row_ok(c.a, c.bounds, k)))),
        ]

    reg.add(Contract(
        FILE + '::bounds_interleaved',
        params=[('flat_values', Arr('float')), ('flat_value_offsets', Arr('int', 'uint32'))],
        returns=Arr('float', ndim=2, cols=4),
        requires=bi_requires, ensures=bi_ensures,
        loops={0: Loop(invariant=bi_inv, var='i')},
        props=P))

    # ------------------------------------------------------------ declarative reading of the spec
    def mk_bound_lemma(name, F, cmp, kind_lemma):
        # every finite cell in range bounds F: F finite and F <= / >= cell
        def req(n):
            return [And(n.lo <= n.k, n.k < n.hi, (n.k - n.lo) % 2 == 0, (n.hi - n.lo) % 2 == 0,
                        SBool(z3.Select(n.T, n.k.z()) == FIN))]

        def ens(n):
            f = F(n.A, n.T, n.lo, n.hi)
            x = _cell(n.A, n.T, n.k)
            return [('finite', f.is_fin()), ('bound', cmp(f, x))]

        def proof(n, use):
            return [use(name, A=n.A, T=n.T, lo=n.lo, hi=n.hi - 2, k=n.k),
                    use(kind_lemma, A=n.A, T=n.T, lo=n.lo, hi=n.hi - 2)]
        reg.add_lemma(Lemma(name, [('A', AV), ('T', AT), ('lo', 'int'), ('hi', 'int'), ('k', 'int')],
                            requires=req, ensures=ens, proof=proof, decreases=lambda n: n.hi - n.lo, props=P))


    def mk_attained_lemma(name, F, W, inf):
        # F is either the initial infinity or a finite cell in range, found at the witness index W (a spec
        # function defined by the same recursion); never NaN
        def req(n):
            return [(n.hi - n.lo) % 2 == 0]

        def ens(n):
            f = F(n.A, n.T, n.lo, n.hi)
            w = W(n.A, n.T, n.lo, n.hi)
            x = _cell(n.A, n.T, w)
            attained = And(f.is_fin(), w >= n.lo, w < n.hi, (w - n.lo) % 2 == 0, x.is_fin(), SBool(x.val == f.val))
            return [('inf-or-attained', Or(And(f.same(SFloat.const(inf)), w == -1), attained)),
                    ('never-nan', Not(f.is_nan()))]

        def proof(n, use):
            return [use(name, A=n.A, T=n.T, lo=n.lo, hi=n.hi - 2)]
        reg.add_lemma(Lemma(name, [('A', AV), ('T', AT), ('lo', 'int'), ('hi', 'int')],
                            requires=req, ensures=ens, proof=proof, decreases=lambda n: n.hi - n.lo, props=P))

    mk_attained_lemma('MINV_attained', MINV, WITMIN, float('inf'))
    mk_attained_lemma('MAXV_attained', MAXV, WITMAX, float('-inf'))
    mk_bound_lemma('MINV_lower_bound', MINV, lambda f, x: f <= x, 'MINV_attained')
    mk_bound_lemma('MAXV_upper_bound', MAXV, lambda f, x: f >= x, 'MAXV_attained')

    # C17: an element without coordinates (empty, or missing = empty range) has a NaN bounds row and adds nothing
    # to the total bounds: MINV/MAXV over an empty range are the initial infinities, which the kernels turn into NaN
    reg.add_lemma(Lemma('empty_range_is_inert', [('A', AV), ('T', AT), ('lo', 'int'), ('mid', 'int'), ('hi', 'int')],
                        requires=lambda n: [And(n.lo <= n.mid, n.mid <= n.hi, (n.mid - n.lo) % 2 == 0, (n.hi - n.mid) % 2 == 0)],
                        ensures=lambda n: [
                            ('empty-min-is-inf', MINV(n.A, n.T, n.lo, n.lo).same(SFloat.const(float('inf')))),
                            ('empty-max-is-neginf', MAXV(n.A, n.T, n.lo, n.lo).same(SFloat.const(float('-inf'))))],
                        props=('C17', 'C13')))
