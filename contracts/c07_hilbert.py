"""C07 - Hilbert curve (spatialpandas/spatialindex/hilbert_curve.py), 64-bit bit-vector semantics.

Per configuration (p, n) every loop bound is concrete (<= 62 = operand width), so the functions are
unrolled completely: a decision for a configuration covers ALL inputs of that configuration.

Structure (DESIGN 5/C07):
  * stage spec functions  T (bit transpose), GD / GE (Gray decode / encode), U_Q / D_Q (one row of
    "undo excess work" and its inverse), TI (inverse transpose);  DEC = U.. o GD o T,  ENC = TI o GE o D..
  * conformance: the real functions equal DEC / ENC (contracts below);
  * stage lemmas: each stage pair is mutually inverse and preserves the coordinate range (QF_BV);
  * chain lemmas: from the stage lemmas alone (stages abstracted to uninterpreted functions) the two
    round trips follow, hence the bijection between [0, 2^(np)) and the grid;
  * adjacency by complete case split on the number of trailing one bits of h; refinement
    DEC_{p+1}(h) >> 1 == DEC_p(h >> n); end points for n = 2.
"""
import z3

from pyvc.contracts import Arr, Contract, Int, Lemma, ListOf, Loop
from pyvc.values import Mode, SBool, SInt, And, Implies, Ite, Not, Or, forall, to_int

P = ('C07',)
FILE = 'spatialpandas/spatialindex/hilbert_curve.py'


def configs_for(tier):
    if tier == 'thorough':
        out = [(p, 2) for p in range(1, 32)] + [(p, 1) for p in range(1, 63)] + [(p, 3) for p in range(1, 21)]
    else:
        out = [(p, 2) for p in (1, 2, 3, 5, 10, 16, 31)] + [(p, 1) for p in (1, 2, 62)] + \
              [(p, 3) for p in (1, 2, 8)]
    return out


# ---------------------------------------------------------------------- stage spec functions (bv64 terms)

def bit(x, k):
    return (x >> k) & 1


def S_T(p, n, h):
    """transpose: coordinate i gets bits i, i+n, ... of h counted from the most significant of the pn bits"""
    out = []
    for i in range(n):
        acc = SInt(0)
        for t in range(p):
            # bit t of x_i is bit (pn-1-(i+n*(p-1-t))) of h
            acc = acc | (bit(h, p * n - 1 - (i + n * (p - 1 - t))) << t)
        out.append(acc)
    return out


def S_TI(p, n, c):
    acc = SInt(0)
    for i in range(p):
        for j in range(n):
            acc = acc | (bit(c[j], p - 1 - i) << (p * n - 1 - (n * i + j)))
    return acc


def S_GD(p, n, c):
    c = list(c)
    t = c[n - 1] >> 1
    for i in range(n - 1, 0, -1):
        c[i] = c[i] ^ c[i - 1]
    c[0] = c[0] ^ t
    return c


def S_GE(p, n, c):
    c = list(c)
    for i in range(1, n):
        c[i] = c[i] ^ c[i - 1]
    t = SInt(0)
    Q = 1 << (p - 1)
    while Q > 1:
        t = Ite((c[n - 1] & Q) != 0, t ^ (Q - 1), t)
        Q >>= 1
    return [x ^ t for x in c]


def _row(n, Q, c, order):
    c = list(c)
    Pm = Q - 1
    for i in order:
        hit = (c[i] & Q) != 0
        t = (c[0] ^ c[i]) & Pm
        c0_inv = c[0] ^ Pm
        c0_ex = c[0] ^ t
        ci_ex = c[i] ^ t
        new0 = Ite(hit, c0_inv, c0_ex)
        newi = Ite(hit, c[i], ci_ex)
        if i == 0:
            # exchange of coord[0] with itself: t == 0, nothing changes
            c[0] = Ite(hit, c0_inv, c[0])
        else:
            c[0] = new0
            c[i] = newi
    return c


def S_U(p, n, Q, c):
    """one row of 'undo excess work' (decoder): i = n-1 .. 0"""
    return _row(n, Q, c, range(n - 1, -1, -1))


def S_D(p, n, Q, c):
    """one row of the inverse (encoder): i = 0 .. n-1"""
    return _row(n, Q, c, range(n))


def DEC(p, n, h):
    c = S_GD(p, n, S_T(p, n, h))
    Q = 2
    while Q != (2 << (p - 1)):
        c = S_U(p, n, Q, c)
        Q <<= 1
    return c


def ENC(p, n, c):
    Q = 1 << (p - 1)
    while Q > 1:
        c = S_D(p, n, Q, c)
        Q >>= 1
    return S_TI(p, n, S_GE(p, n, c))


def in_grid(p, c):
    return And(*[And(x >= 0, x < (1 << p)) for x in c])


def in_dist(p, n, h):
    return And(h >= 0, h < (1 << (p * n)))


def cfg_of(c):
    return c.config['p'], c.config.get('n')


# ---------------------------------------------------------------------- registration

def register(reg, tier='quick', configs=None):
    cfgs = configs if configs is not None else configs_for(tier)
    widths = sorted({p for p, n in cfgs} | {p * n for p, n in cfgs})
    pn = [{'p': p, 'n': n} for p, n in cfgs]

    # -- _int_2_binary(v, width)
    def i2b_ens(c, r):
        w = int(c.width)
        return [('length', SBool(len(r) == w))] + \
               [(f'bit{i}', r[w - 1 - i] == bit(c.v, i)) for i in range(w)]

    reg.add(Contract(FILE + '::_int_2_binary', [('v', Int()), ('width', Int())],
                     returns=lambda c: Arr('int', 'uint8', conc_len=int(c.width)),
                     requires=lambda c: [('v-nonneg', c.v >= 0)], ensures=i2b_ens,
                     int_mode='bv64', configs=[{'width': w} for w in widths], props=P))

    # -- _binary_2_int(bin_vec)
    def b2i_ens(c, r):
        w = len(c.bin_vec)
        acc = SInt(0)
        for t in range(w):
            acc = acc + (c.bin_vec[w - 1 - t] << t)
        return [('value', r == acc)]

    reg.add(Contract(FILE + '::_binary_2_int',
                     lambda cfg: [('bin_vec', Arr('int', 'uint8', conc_len=cfg['width']))],
                     returns=Int(), ensures=b2i_ens,
                     int_mode='bv64', configs=[{'width': w} for w in sorted({p for p, n in cfgs})], props=P))

    # -- _hilbert_integer_to_transpose(p, h, n)
    def h2t_ens(c, r):
        p, n = int(c.p), int(c.n)
        exp = S_T(p, n, c.h)
        return [(f'x{i}', r[i] == exp[i]) for i in range(n)]

    reg.add(Contract(FILE + '::_hilbert_integer_to_transpose', [('p', Int()), ('h', Int()), ('n', Int())],
                     returns=lambda c: ListOf(Int(), int(c.n)),
                     requires=lambda c: [('h-range', in_dist(int(c.p), int(c.n), c.h))], ensures=h2t_ens,
                     int_mode='bv64', configs=pn, props=P))

    # -- _transpose_to_hilbert_integer(p, coord)
    def t2h_params(cfg):
        return [('p', Int()), ('coord', Arr('int', 'int64', conc_len=cfg['n']))]

    def t2h_ens(c, r):
        p, n = int(c.p), len(c.coord)
        return [('h', r == S_TI(p, n, c.coord.cells()))]

    reg.add(Contract(FILE + '::_transpose_to_hilbert_integer', t2h_params, returns=Int(),
                     requires=lambda c: [('coords-nonneg', And(*[x >= 0 for x in c.coord.cells()]))],
                     ensures=t2h_ens, int_mode='bv64', configs=pn, props=P))

    # -- coordinate_from_distance(p, n, h)
    def cfd_ens(c, r):
        p, n = int(c.p), int(c.n)
        exp = DEC(p, n, c.h)
        return [(f'coord{i}-is-DEC', r[i] == exp[i]) for i in range(n)] + \
               [('in-grid', in_grid(p, r))]

    reg.add(Contract(FILE + '::coordinate_from_distance', [('p', Int()), ('n', Int()), ('h', Int())],
                     returns=lambda c: ListOf(Int(), int(c.n)),
                     requires=lambda c: [('h-range', in_dist(int(c.p), int(c.n), c.h))], ensures=cfd_ens,
                     int_mode='bv64', configs=pn, props=P))

    # -- distance_from_coordinate(p, coord)
    def dfc_ens(c, r):
        p, n = int(c.p), len(c.coord)
        return [('h-is-ENC', r == ENC(p, n, c.coord.cells())),
                ('h-range', in_dist(p, n, r))]

    reg.add(Contract(FILE + '::distance_from_coordinate', t2h_params, returns=Int(),
                     requires=lambda c: [('in-grid', in_grid(int(c.p), c.coord.cells()))],
                     ensures=dfc_ens, modifies=('coord',), int_mode='bv64', configs=pn, props=P))

    # ------------------------------------------------------------------ lemmas per configuration
    for p, n in cfgs:
        add_config_lemmas(reg, p, n, tier)


def _bvvars(names):
    return [(nm, 'int') for nm in names]


def add_config_lemmas(reg, p, n, tier):
    tag = f"[p={p},n={n}]"
    cn = [f'c{i}' for i in range(n)]

    def vec(ns):
        return [getattr(ns, x) for x in cn]

    def eqv(a, b):
        return And(*[x == y for x, y in zip(a, b)])

    L = lambda *a, **k: reg.add_lemma(Lemma(*a, int_mode='bv64', props=P, **k))

    # transpose pair
    L('T_inverse' + tag, _bvvars(['h']),
      requires=lambda ns: [in_dist(p, n, ns.h)],
      ensures=lambda ns: [('TI(T(h))==h', S_TI(p, n, S_T(p, n, ns.h)) == ns.h),
                          ('T(h)-in-grid', in_grid(p, S_T(p, n, ns.h)))])
    L('TI_inverse' + tag, _bvvars(cn),
      requires=lambda ns: [in_grid(p, vec(ns))],
      ensures=lambda ns: [('T(TI(c))==c', eqv(S_T(p, n, S_TI(p, n, vec(ns))), vec(ns))),
                          ('TI(c)-in-range', in_dist(p, n, S_TI(p, n, vec(ns))))])
    # Gray pair
    L('Gray_inverse' + tag, _bvvars(cn),
      requires=lambda ns: [in_grid(p, vec(ns))],
      ensures=lambda ns: [('GE(GD(c))==c', eqv(S_GE(p, n, S_GD(p, n, vec(ns))), vec(ns))),
                          ('GD(GE(c))==c', eqv(S_GD(p, n, S_GE(p, n, vec(ns))), vec(ns))),
                          ('GD-in-grid', in_grid(p, S_GD(p, n, vec(ns)))),
                          ('GE-in-grid', in_grid(p, S_GE(p, n, vec(ns))))])
    # row pair, for every power of two Q = 2^j < 2^p, j symbolic
    def row_req(ns):
        return [in_grid(p, vec(ns)), And(ns.j >= 1, ns.j < p)]

    def row_ens(ns):
        Q = SInt(1) << ns.j
        c = vec(ns)
        return [('D(U(c))==c', eqv(S_D(p, n, Q, S_U(p, n, Q, c)), c)),
                ('U(D(c))==c', eqv(S_U(p, n, Q, S_D(p, n, Q, c)), c)),
                ('U-in-grid', in_grid(p, S_U(p, n, Q, c))),
                ('D-in-grid', in_grid(p, S_D(p, n, Q, c)))]
    if p >= 2:
        L('Row_inverse' + tag, _bvvars(cn + ['j']), requires=row_req, ensures=row_ens)

    # chain: round trips from the stage lemmas, stages abstracted to uninterpreted functions
    add_chain_lemma(reg, p, n, tag)

    # adjacency: complete split on k = number of trailing one bits of h:  h = u * 2^(k+1) + 2^k - 1
    for k in range(p * n):
        low = (1 << k) - 1

        def mk(ns, k=k, low=low):
            h = (ns.u << (k + 1)) | low
            h1 = (ns.u << (k + 1)) | (1 << k)
            return h, h1

        def adj_req(ns, k=k):
            return [And(ns.u >= 0, ns.u < (1 << (p * n - k - 1)))]

        def adj_ens(ns, k=k, low=low, mk=mk):
            h, h1 = mk(ns)
            a = DEC(p, n, h)
            b = DEC(p, n, h1)
            diffs = []
            for i in range(n):
                others = And(*[a[j] == b[j] for j in range(n) if j != i])
                diffs.append(And(others, Or(a[i] == b[i] + 1, b[i] == a[i] + 1)))
            return [('successor', h1 == h + 1), ('in-range', And(in_dist(p, n, h), in_dist(p, n, h1))),
                    ('neighbours', Or(*diffs))]
        L(f'Adjacent{tag}[k={k}]', _bvvars(['u']), requires=adj_req, ensures=adj_ens, tactic='qfbv')

    # exhaustiveness of the split: every h with a successor in range has that form for some k < pn
    def split_ens(ns):
        cases = []
        for k in range(p * n):
            u = ns.h >> (k + 1)
            cases.append(And(ns.h == ((u << (k + 1)) | ((1 << k) - 1)), u >= 0, u < (1 << (p * n - k - 1))))
        return [('some-case', Or(*cases))]
    L('Adjacent_split_exhaustive' + tag, _bvvars(['h']),
      requires=lambda ns: [in_dist(p, n, ns.h), ns.h + 1 < (1 << (p * n))], ensures=split_ens)

    # refinement between successive orders (decoder side)
    if (p + 1) * n <= 62:
        def ref_ens(ns):
            hi = DEC(p + 1, n, ns.h)
            lo = DEC(p, n, ns.h >> n)
            return [('parent-cell', And(*[(x >> 1) == y for x, y in zip(hi, lo)]))]
        L('Refines' + tag, _bvvars(['h']), requires=lambda ns: [in_dist(p + 1, n, ns.h)], ensures=ref_ens)

    # end points of the classical 2-d curve
    if n == 2:
        def end_ens(ns):
            a = DEC(p, 2, SInt(0))
            b = DEC(p, 2, SInt((1 << (2 * p)) - 1))
            return [('start', And(a[0] == 0, a[1] == 0)), ('end', And(b[0] == (1 << p) - 1, b[1] == 0))]
        L('Endpoints' + tag, [], ensures=end_ens)


def add_chain_lemma(reg, p, n, tag):
    """ENC(DEC(h)) == h and DEC(ENC(c)) == c, derived ONLY from the stage lemmas' statements with
    the stage functions uninterpreted (so the expensive bit-level reasoning is not repeated)."""
    BV = z3.BitVecSort(64)
    rows = [1 << j for j in range(1, p)]

    def uf(name, nin, nout):
        return [z3.Function(f'{name}_{o}{tag}', *([BV] * nin), BV) for o in range(nout)]

    fT = uf('T', 1, n)
    fTI = uf('TI', n, 1)
    fGD = uf('GD', n, n)
    fGE = uf('GE', n, n)
    fU = {Q: uf(f'U{Q}', n, n) for Q in rows}
    fD = {Q: uf(f'D{Q}', n, n) for Q in rows}

    def app(fs, args):
        return [f(*args) for f in fs]

    def grid(c):
        return z3.And(*[z3.And(x >= 0, x < (1 << p)) for x in c])

    def dist(h):
        return z3.And(h >= 0, h < (1 << (p * n)))

    def axioms():
        ax = []
        h = z3.BitVec('ch' + tag, 64)
        c = [z3.BitVec(f'cc{i}{tag}', 64) for i in range(n)]
        # T / TI
        Th = app(fT, [h])
        ax.append(z3.ForAll([h], z3.Implies(dist(h), z3.And(fTI[0](*Th) == h, grid(Th))), patterns=[Th[0]]))
        TIc = fTI[0](*c)
        ax.append(z3.ForAll(c, z3.Implies(grid(c), z3.And(dist(TIc), *[x == y for x, y in zip(app(fT, [TIc]), c)])),
                            patterns=[TIc]))
        # Gray
        gd = app(fGD, c)
        ge = app(fGE, c)
        ax.append(z3.ForAll(c, z3.Implies(grid(c), z3.And(grid(gd), *[x == y for x, y in zip(app(fGE, gd), c)])),
                            patterns=[gd[0]]))
        ax.append(z3.ForAll(c, z3.Implies(grid(c), z3.And(grid(ge), *[x == y for x, y in zip(app(fGD, ge), c)])),
                            patterns=[ge[0]]))
        for Q in rows:
            u = app(fU[Q], c)
            d = app(fD[Q], c)
            ax.append(z3.ForAll(c, z3.Implies(grid(c), z3.And(grid(u), *[x == y for x, y in zip(app(fD[Q], u), c)])),
                                patterns=[u[0]]))
            ax.append(z3.ForAll(c, z3.Implies(grid(c), z3.And(grid(d), *[x == y for x, y in zip(app(fU[Q], d), c)])),
                                patterns=[d[0]]))
        return ax

    def dec(h):
        c = app(fGD, app(fT, [h]))
        for Q in rows:
            c = app(fU[Q], c)
        return c

    def enc(c):
        for Q in reversed(rows):
            c = app(fD[Q], c)
        return fTI[0](*app(fGE, c))

    def ens(ns):
        h = ns.h.z()
        c = [getattr(ns, f'c{i}').z() for i in range(n)]
        d = dec(h)
        e = enc(c)
        return [
            ('ENC(DEC(h))==h', SBool(z3.Implies(dist(h), enc(d) == h))),
            ('DEC(h)-in-grid', SBool(z3.Implies(dist(h), grid(d)))),
            ('DEC(ENC(c))==c', SBool(z3.Implies(grid(c), z3.And(*[x == y for x, y in zip(dec(e), c)])))),
            ('ENC(c)-in-range', SBool(z3.Implies(grid(c), dist(e)))),
        ]

    reg.add_lemma(Lemma('RoundTrip_chain' + tag, _bvvars(['h'] + [f'c{i}' for i in range(n)]),
                        ensures=ens, proof=lambda ns, use: [SBool(a) for a in axioms()],
                        int_mode='bv64', props=P, sat_check=False,
                        note='stage functions uninterpreted; axioms are exactly the statements of T_inverse, '
                             'TI_inverse, Gray_inverse and Row_inverse for this configuration'))
