"""Glue methods under contract (continued): missing mask (GeometryArray.isna / _extract_isnull_bytemap) and
PolygonArray.oriented / MultiPolygonArray.oriented (C15) relative to the pyarrow representation contracts."""
import z3

from pyvc.contracts import Arr, Contract, Flt, Int, Rec, Sort, Tup, same_array
from pyvc.values import (FIN, NONE, SBool, SFloat, SInt, SNone, And, Implies, Ite, Not, Or, forall)
from .glue_rep import ListGeomArray, OUT, offs_of, rep_of, vals_of, well_formed
from .c16_isnull import bit_is_zero
from .c15_orient import needs_flip, rings_kept, rings_reversed

BASE = 'spatialpandas/geometry/base.py'
POLY = 'spatialpandas/geometry/polygon.py'
MPOLY = 'spatialpandas/geometry/multipolygon.py'


def is_null(selfv, i):
    """slot i of the array is null: bit (offset+i) of the validity bitmap is 0; no bitmap = no nulls"""
    rep = rep_of(selfv)
    vb = rep.bufs[0]
    if isinstance(vb, SNone):
        return SBool(False)
    idx = rep.offset + i
    return And(vb.n > 0, bit_is_zero(vb[idx // 8], idx % 8))


def validity_ok(selfv):
    rep = rep_of(selfv)
    vb = rep.bufs[0]
    if isinstance(vb, SNone):
        return []
    return [('validity-bitmap-covers-the-array', Or(vb.n == 0, 8 * vb.n >= rep.offset + rep.length))]


def register(reg):
    CFG = [{'levels': L, 'validity': v} for L in (1, 2, 3) for v in (True, False)]

    def S(cfg, **kw):
        return ListGeomArray(cfg['levels'] if isinstance(cfg.get('levels'), int) else 1,
                             validity=bool(cfg.get('validity', True)), **kw)

    # ------------------------------------------------------------ _extract_isnull_bytemap / GeometryArray.isna
    class ListArrayOnly(Sort):
        def __init__(self, cfg):
            self.cfg = cfg

        def make(self, state, name):
            me, a = S(self.cfg).make(state, name)
            return me.fields['listarray'], a

    class _Wrap:
        def __init__(self, rep):
            self.listarray = rep

    def isnull_ens(getself):
        def ens(c, r):
            me = getself(c)
            rep = rep_of(me)
            return [('length', r.n == rep.length),
                    ('cells', forall('int', lambda i: Implies(And(i >= 0, i < rep.length), r[i] == is_null(me, i))))]
        return ens

    reg.add(Contract(BASE + '::_extract_isnull_bytemap', lambda cfg: [('list_array', ListArrayOnly(cfg))],
                     returns=Arr('bool'),
                     requires=lambda c: validity_ok(_Wrap(c.list_array)),
                     ensures=isnull_ens(lambda c: _Wrap(c.list_array)),
                     configs=CFG, props=('C16', 'C17')))

    reg.add(Contract(BASE + '::GeometryArray.isna', lambda cfg: [('self', S(cfg))], returns=Arr('bool'),
                     requires=lambda c: validity_ok(c.self), ensures=isnull_ens(lambda c: c.self),
                     configs=CFG, props=('C16', 'C17', 'C15')))

    # ------------------------------------------------------------ oriented()
    def oriented_contract(target, levels):
        cfgs = [{'levels': levels, 'validity': v} for v in (True, False)]

        def req(c):
            return well_formed(c.self, levels) + validity_ok(c.self)

        def ens(c, r):
            rep = rep_of(c.self)
            offs = offs_of(c.self, levels)
            v = vals_of(c.self)
            out_rep = r.listarray
            ob = out_rep.bufs
            res_offs = [ob[2 * k + 1] for k in range(levels)]
            res_vals = ob[-1]
            ro = offs[-1]                                   # ring offsets (whole buffer)
            po = offs[-2].sub(rep.offset, rep.length + 1) if levels == 2 else offs[-2]   # polygon offsets seen by the kernel
            R = ro.n - 1
            nm = out_rep._rec.fields.get('nullmask')
            clauses = [
                ('same-number-of-elements', out_rep.length == rep.length),
                # pyarrow gives a missing slot an empty range ending at the next valid offset
                ('offsets-of-present-elements-kept', forall('int', lambda k: Implies(
                    And(k >= 0, k <= rep.length, Or(k == rep.length, Not(is_null(c.self, k)))),
                    res_offs[0][k] == offs[0][rep.offset + k]))),
                ('missing-elements-get-empty-ranges', forall('int', lambda k: Implies(
                    And(k >= 0, k < rep.length, is_null(c.self, k)), res_offs[0][k] == res_offs[0][k + 1]))),
                ('ring-offsets-kept', And(res_offs[-1].n == ro.n, forall('int', lambda k: Implies(
                    And(k >= 0, k < ro.n), res_offs[-1][k] == ro[k])))),
                ('rings-kept', rings_kept(v, res_vals, ro, R, lambda k: needs_flip(v, po, ro, k))),
                ('rings-reversed', rings_reversed(v, res_vals, ro, R, lambda k: needs_flip(v, po, ro, k))),
                ('coordinates-outside-rings-kept', forall('int', lambda t: Implies(
                    And(t >= 0, t < v.n, Or(t < ro[0], t >= ro[R])), res_vals[t] == v[t]))),
            ]
            if levels == 3:
                clauses.append(('polygon-offsets-kept', And(res_offs[1].n == offs[1].n, forall('int', lambda k: Implies(
                    And(k >= 0, k < offs[1].n), res_offs[1][k] == offs[1][k])))))
            if nm is not None and not isinstance(nm, SNone):
                nmv = c.post.view(nm)
                res_null = lambda i: nmv[i]
            elif nm is not None:
                res_null = lambda i: SBool(False)        # from_arrays without a mask: no slot is null
            else:
                # a real result (concrete replay): read its validity bitmap
                class _R:
                    listarray = out_rep
                res_null = lambda i: is_null(_R, i)
            clauses.append(('missing-stays-missing', forall('int', lambda i: Implies(
                And(i >= 0, i < rep.length), res_null(i) == is_null(c.self, i)))))
            return clauses

        reg.add(Contract(target, lambda cfg: [('self', ListGeomArray(levels, cls='PolygonArray' if levels == 2 else 'MultiPolygonArray',
                                                                    finite=True, validity=bool(cfg.get('validity', True))))],
                         returns=None, requires=req, ensures=ens, configs=cfgs, props=('C15', 'C17'),
                         fuel=2, solver_opts={'arith.nl': False}))

    oriented_contract(POLY + '::PolygonArray.oriented', 2)
    oriented_contract(MPOLY + '::MultiPolygonArray.oriented', 3)
