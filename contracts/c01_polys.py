"""C01 - polygon and multipolygon box drivers of intersection.py under contract:
_perform_polygon_intersect_bounds, polygons_intersect_bounds, multipolygons_intersect_bounds.

Spec (for a polygon whose rings are the ranges O[a..b] of the coordinate array):

    POLY_MEETS(A, voff, O, a, b, box)  <=>   some ring r in [a, b) has LINE_MEETS (a vertex in the box or a segment
                                              meeting it: the polygon's BOUNDARY meets the closed box)
                                         or   one of the four box corners has non-zero winding number.

For a valid polygon this is "the closed region meets the closed box": if the boundary misses the box, the box is
a connected set meeting no ring, on which the winding number is constant (T1, DESIGN section 6 - a topological
fact these contracts do not express), so testing any corner decides whether the box lies inside.

Preconditions taken from the property's quantifier ("polygons valid"), and what each is needed for:
  rings-closed        first vertex = last vertex of every ring: a ring entirely to the right of a point has winding
                      number 0 (telescoping sum, lemma ring_right_of_point_telescopes) - the early reject
  shell-spans-polygon the shell's bounding box is the polygon's: the early accept (slab shortcut) walks along the
                      shell between its extreme vertices (holes lie inside the shell)
"""
import z3

from pyvc.contracts import Arr, Bool, Contract, Flt, Int, Lemma, Loop, RecSpec
from pyvc.lemmas import instance, instance_forall
from pyvc.values import (FIN, SBool, SFloat, SInt, And, Implies, Ite, Not, Or, exists, forall)
from .c01_box import fmax, fmin, si_candidates
from .c01_lines import LINE_MEETS, SEGQ, in_box, rl, seg_qf
from .c02_point import WNR, WNRINGS, contrib, rcell
from .c13_bounds import AT, AV, MAXV, MINV, WITMAX, WITMIN
from .c14_measures import AO, celli

P = ('C01',)
INT = 'spatialpandas/geometry/_algorithms/intersection.py'
R = z3.RealSort()
Z = SFloat.const(0.0)


def _poly_meets_body(self, A, voff, O, a, b, x0, y0, x1, y1):
    def off(k):
        return voff + celli(O, k)
    boundary = exists('int', lambda r: And(r >= a, r < b, LINE_MEETS(A, off(r), off(r + 1), x0, y0, x1, y1)))

    def wn(px, py):
        # rings a..b-1: WNRINGS counts rings from position ooff = a
        return WNRINGS(A, voff, O, a, b - a, px, py)
    corner = Or(wn(x0, y0) != 0, wn(x1, y0) != 0, wn(x1, y1) != 0, wn(x0, y1) != 0)
    return Or(boundary, corner)


POLY_MEETS = RecSpec('POLY_MEETS', [AV, 'int', AO, 'int', 'int', R, R, R, R], 'bool', _poly_meets_body)


def _mpoly_body(self, A, voff, O2, o2off, O1, a, b, x0, y0, x1, y1):
    # polygons a..b-1 (raw positions in the polygon-offsets array O1, whose values are positions - relative to raw
    # position o2off - in the ring-offsets array O2)
    return exists('int', lambda q: And(q >= a, q < b, POLY_MEETS(A, voff, O2, o2off + celli(O1, q), o2off + celli(O1, q + 1),
                                                                 x0, y0, x1, y1)))


MPOLY_MEETS = RecSpec('MPOLY_MEETS', [AV, 'int', AO, 'int', AO, 'int', 'int', R, R, R, R], 'bool', _mpoly_body)


HELPERS = {}


def ind(c):
    return Ite(c, SInt(1), SInt(0))


def register(reg):
    F = Flt(finite=True)
    U32 = Arr('int', 'uint32')

    # ------------------------------------------------------------ winding number of rings beside a point
    # (1) an edge strictly to the right of the point contributes [y1 >= y] - [y0 >= y]
    en = ['x0', 'y0', 'x1', 'y1', 'x', 'y']
    reg.add_lemma(Lemma('edge_right_of_point', [(v, 'real') for v in en],
                        requires=lambda n: [And(n.x0 > n.x, n.x1 > n.x)],
                        ensures=lambda n: [('indicator-difference', contrib(n.x0, n.y0, n.x1, n.y1, n.x, n.y) ==
                                            ind(n.y1 >= n.y) - ind(n.y0 >= n.y))], props=P))
    # (2) an edge with both ends left of / level-wise beyond the point contributes nothing
    reg.add_lemma(Lemma('edge_not_right_of_point', [(v, 'real') for v in en],
                        requires=lambda n: [Or(And(n.x0 < n.x, n.x1 < n.x), And(n.y0 > n.y, n.y1 > n.y),
                                               And(n.y0 < n.y, n.y1 < n.y))],
                        ensures=lambda n: [('zero', contrib(n.x0, n.y0, n.x1, n.y1, n.x, n.y) == 0)], props=P))

    # In the inductive lemmas below the hypothesis about the coordinates is stated over a FIXED cell range [S, E)
    # (x at even offsets from S, y at odd), so that the induction hypothesis carries the very same formula.
    SIDES = {'left': (0, lambda c, n: c < n.x), 'above': (1, lambda c, n: c > n.y), 'below': (1, lambda c, n: c < n.y),
             'right': (0, lambda c, n: c > n.x)}

    def beyond(side, n):
        off, pred = SIDES[side]
        return forall('int', lambda k: Implies(And(k >= n.S + off, k < n.E + off, (k - n.S - off) % 2 == 0), pred(rcell(n.A, k), n)))

    def run_inside(n):
        return And(n.S <= n.lo, n.lo <= n.m, n.m + 2 <= n.E, (n.lo - n.S) % 2 == 0, (n.m - n.lo) % 2 == 0)

    RUNV = [('A', AV), ('S', 'int'), ('E', 'int'), ('lo', 'int'), ('m', 'int'), ('x', 'real'), ('y', 'real')]

    # (3) telescoping: edges lo .. m-2 of a vertex run strictly right of the point
    def tel_proof(n, use):
        k = n.m - 2
        return [use('run_right_of_point_telescopes', A=n.A, S=n.S, E=n.E, lo=n.lo, m=n.m - 2, x=n.x, y=n.y),
                use('edge_right_of_point', x0=rcell(n.A, k), y0=rcell(n.A, k + 1), x1=rcell(n.A, k + 2), y1=rcell(n.A, k + 3),
                    x=n.x, y=n.y)]
    reg.add_lemma(Lemma('run_right_of_point_telescopes', RUNV,
                        requires=lambda n: [run_inside(n), beyond('right', n)],
                        ensures=lambda n: [('telescopes', WNR(n.A, n.lo, n.m, n.x, n.y) ==
                                            ind(rcell(n.A, n.m + 1) >= n.y) - ind(rcell(n.A, n.lo + 1) >= n.y))],
                        proof=tel_proof, decreases=lambda n: n.m - n.lo, props=P))

    # (4) edges lo .. m-2 of a vertex run entirely left of / above / below the point contribute nothing
    for side in ('left', 'above', 'below'):
        def nz_proof(n, use, side=side):
            k = n.m - 2
            return [use(f'run_{side}_of_point_is_zero', A=n.A, S=n.S, E=n.E, lo=n.lo, m=n.m - 2, x=n.x, y=n.y),
                    use('edge_not_right_of_point', x0=rcell(n.A, k), y0=rcell(n.A, k + 1), x1=rcell(n.A, k + 2), y1=rcell(n.A, k + 3),
                        x=n.x, y=n.y)]
        reg.add_lemma(Lemma(f'run_{side}_of_point_is_zero', RUNV,
                            requires=lambda n, side=side: [run_inside(n), beyond(side, n)],
                            ensures=lambda n: [('zero', WNR(n.A, n.lo, n.m, n.x, n.y) == 0)],
                            proof=nz_proof, decreases=lambda n: n.m - n.lo, props=P))

    # (5) rings: positions ooff .. ooff+j in O; ring r = cells [voff+O[ooff+r], voff+O[ooff+r+1]) inside [S, E)
    def ring_lo(n, r):
        return n.voff + celli(n.O, n.ooff + r)

    def ring_at(n, q):
        return n.voff + celli(n.O, q)

    def rings_inside(n):
        # two-index monotonicity, range and parity relative to S, over POSITIONS q in O (instances are found by
        # matching O[q]); restricts to any prefix of the rings
        lo_q, hi_q = n.ooff, n.ooff + n.j
        return And(forall(['int', 'int'], lambda a, b: Implies(And(a >= lo_q, a <= b, b <= hi_q), celli(n.O, a) <= celli(n.O, b)),
                          patterns=lambda a, b: [z3.MultiPattern(celli(n.O, a).z(), celli(n.O, b).z())]),
                   forall('int', lambda q: Implies(And(q >= lo_q, q <= hi_q), And(n.S <= ring_at(n, q), ring_at(n, q) <= n.E,
                                                                               (ring_at(n, q) - n.S) % 2 == 0)),
                          patterns=lambda q: [celli(n.O, q).z()]))

    def rings_closed(n):
        def closed(q):
            s_, e_ = ring_at(n, q), ring_at(n, q + 1)
            return Implies(e_ > s_, And(rcell(n.A, s_) == rcell(n.A, e_ - 2), rcell(n.A, s_ + 1) == rcell(n.A, e_ - 1)))
        return forall('int', lambda q: Implies(And(q >= n.ooff, q < n.ooff + n.j), closed(q)),
                      patterns=lambda q: [celli(n.O, q).z()])

    RV = [('A', AV), ('S', 'int'), ('E', 'int'), ('voff', 'int'), ('O', AO), ('ooff', 'int'), ('j', 'int'), ('x', 'real'), ('y', 'real')]

    for side in ('left', 'above', 'below'):
        def rz_proof(n, use, side=side):
            s_, e_ = ring_lo(n, n.j - 1), ring_lo(n, n.j)
            return [use(f'rings_{side}_of_point_are_zero', A=n.A, S=n.S, E=n.E, voff=n.voff, O=n.O, ooff=n.ooff, j=n.j - 1, x=n.x, y=n.y),
                    use(f'run_{side}_of_point_is_zero', A=n.A, S=n.S, E=n.E, lo=s_, m=e_ - 2, x=n.x, y=n.y)]
        reg.add_lemma(Lemma(f'rings_{side}_of_point_are_zero', RV,
                            requires=lambda n, side=side: [n.j >= 0, rings_inside(n), beyond(side, n)],
                            ensures=lambda n: [('zero', WNRINGS(n.A, n.voff, n.O, n.ooff, n.j, n.x, n.y) == 0)],
                            proof=rz_proof, decreases=lambda n: n.j, props=P, fuel=2))

    def rr_proof(n, use):
        s_, e_ = ring_lo(n, n.j - 1), ring_lo(n, n.j)
        return [use('closed_rings_right_of_point_are_zero', A=n.A, S=n.S, E=n.E, voff=n.voff, O=n.O, ooff=n.ooff, j=n.j - 1, x=n.x, y=n.y),
                use('run_right_of_point_telescopes', A=n.A, S=n.S, E=n.E, lo=s_, m=e_ - 2, x=n.x, y=n.y)]
    reg.add_lemma(Lemma('closed_rings_right_of_point_are_zero', RV,
                        requires=lambda n: [n.j >= 0, rings_inside(n), rings_closed(n), beyond('right', n)],
                        ensures=lambda n: [('zero', WNRINGS(n.A, n.voff, n.O, n.ooff, n.j, n.x, n.y) == 0)],
                        proof=rr_proof, decreases=lambda n: n.j, props=P, fuel=2))

    # ------------------------------------------------------------ lines relative to a box (for quantified use over rings)
    BOXV = [('x0', 'real'), ('y0', 'real'), ('x1', 'real'), ('y1', 'real')]
    BSIDES = {'right': (0, lambda c, n: c > n.x1), 'left': (0, lambda c, n: c < n.x0),
              'above': (1, lambda c, n: c > n.y1), 'below': (1, lambda c, n: c < n.y0)}

    def beyond_box(side, n):
        off, pred = BSIDES[side]
        return forall('int', lambda k: Implies(And(k >= n.S + off, k < n.E + off, (k - n.S - off) % 2 == 0), pred(rcell(n.A, k), n)),
                      patterns=lambda k: [z3.Select(n.A, k.z())])

    def nbox(n):
        return (n.x0, n.y0, n.x1, n.y1)

    LV = [('A', AV), ('S', 'int'), ('E', 'int'), ('lo', 'int'), ('hi', 'int')] + BOXV
    for side in BSIDES:
        def lb_proof(n, use, side=side):
            return [forall('int', lambda k: use('beyond_one_side_misses', ax0=rcell(n.A, k), ay0=rcell(n.A, k + 1),
                                                ax1=rcell(n.A, k + 2), ay1=rcell(n.A, k + 3), x0=n.x0, y0=n.y0, x1=n.x1, y1=n.y1),
                           patterns=lambda k: [z3.Select(n.A, (k + 3).z())])]
        reg.add_lemma(Lemma(f'line_{side}_of_box_misses', LV,
                            requires=lambda n, side=side: [And(n.x0 < n.x1, n.y0 < n.y1, n.S <= n.lo, n.lo <= n.hi, n.hi <= n.E,
                                                               (n.lo - n.S) % 2 == 0, (n.hi - n.lo) % 2 == 0), beyond_box(side, n)],
                            ensures=lambda n: [('misses', Not(LINE_MEETS(n.A, n.lo, n.hi, n.x0, n.y0, n.x1, n.y1)))],
                            proof=lb_proof, props=P))

    def no_vertex(n):
        return forall('int', lambda t: Implies(And(t >= n.lo, t + 1 < n.hi, (t - n.lo) % 2 == 0),
                                               Not(in_box(rcell(n.A, t), rcell(n.A, t + 1), nbox(n)))))

    def no_segment(n):
        return forall('int', lambda t: Implies(And(t >= n.lo, t + 3 < n.hi, (t - n.lo) % 2 == 0),
                                               Not(seg_qf((rcell(n.A, t), rcell(n.A, t + 1), rcell(n.A, t + 2), rcell(n.A, t + 3)), nbox(n)))))
    reg.add_lemma(Lemma('line_without_vertex_or_segment_in_box_misses', [('A', AV), ('lo', 'int'), ('hi', 'int')] + BOXV,
                        requires=lambda n: [no_vertex(n), no_segment(n)],
                        ensures=lambda n: [('misses', Not(LINE_MEETS(n.A, n.lo, n.hi, n.x0, n.y0, n.x1, n.y1)))], props=P))

    # a cell position inside the polygon's range lies in one of its rings
    def cr_proof(n, use):
        return [use('cell_in_some_ring', O=n.O, a=n.a, b=n.b - 1, t=n.t)]
    reg.add_lemma(Lemma('cell_in_some_ring', [('O', AO), ('a', 'int'), ('b', 'int'), ('t', 'int')],
                        requires=lambda n: [And(n.a <= n.b, celli(n.O, n.a) <= n.t, n.t < celli(n.O, n.b))],
                        ensures=lambda n: [('ring', exists('int', lambda r: And(r >= n.a, r < n.b, celli(n.O, r) <= n.t,
                                                                                n.t < celli(n.O, r + 1))))],
                        proof=cr_proof, decreases=lambda n: n.b - n.a, props=P))

    # ------------------------------------------------------------ _perform_polygon_intersect_bounds
    from .c01_lines import accept_steps, bounds_enclose_steps, reject_steps
    from .c14_measures import offsets_ok

    def pp_params():
        return [('i', Int()), ('x0', F), ('y0', F), ('x1', F), ('y1', F), ('flat_values', Arr('float', finite=True)),
                ('start_offsets0', U32), ('stop_offsets0', U32), ('offsets1', U32), ('result', Arr('bool'))]

    def pbox(c):
        return (c.x0, c.y0, c.x1, c.y1)

    class _N:
        pass

    def terms(c):
        """raw arrays and positions: rings a..b (positions in O), cells [S, E)"""
        v, o1 = c.flat_values, c.offsets1
        n = _N()
        n.A, n.T, n.voff, n.O = v.A, v.T, v.off, o1.A
        n.a, n.b = o1.off + c.start_offsets0[c.i], o1.off + c.stop_offsets0[c.i]
        n.S, n.E = v.off + celli(n.O, n.a), v.off + celli(n.O, n.b)
        n.ooff, n.j = n.a, n.b - n.a
        n.x0, n.y0, n.x1, n.y1 = c.x0, c.y0, c.x1, c.y1
        return n

    def pp_requires(c):
        v, o1 = c.flat_values, c.offsets1
        s0, e0 = c.start_offsets0[c.i], c.stop_offsets0[c.i]
        n = terms(c)
        sh_lo, sh_hi = n.S, v.off + celli(n.O, n.a + 1)
        spans = And(*[F_(n.A, n.T, n.S + ax, n.E + ax).same(F_(n.A, n.T, sh_lo + ax, sh_hi + ax))
                      for F_ in (MINV, MAXV) for ax in (0, 1)])
        return [('index', And(c.i >= 0, c.i < c.start_offsets0.n, c.i < c.stop_offsets0.n, c.i < c.result.n)),
                ('box-ordered-positive', And(c.x0 < c.x1, c.y0 < c.y1)),
                ('unit-stride', And(v.stride == 1, o1.stride == 1)),
                ('rings-range', And(s0 >= 0, s0 <= e0, e0 < o1.n)),
                ('ring-offsets-ok', And(rings_inside(n), celli(n.O, n.a) >= 0, celli(n.O, n.b) <= v.n)),
                # valid polygons (the property's quantifier):
                ('rings-closed', rings_closed(n)),
                ('shell-spans-polygon', Implies(n.a < n.b, spans))]

    def poly_meets(c):
        n = terms(c)
        return POLY_MEETS(n.A, n.voff, n.O, n.a, n.b, c.x0.val, c.y0.val, c.x1.val, c.y1.val)

    def pp_ensures(c, r):
        return [('cell-i', c.post.result[c.i] == Or(c.result[c.i], poly_meets(c))),
                ('other-cells-kept', forall('int', lambda k: Implies(And(k >= 0, k < c.result.n, k != c.i),
                                                                     c.post.result[k] == c.result[k])))]

    def vertex_out(a, t):
        v = a.flat_values
        return Not(in_box(v[t], v[t + 1], pbox(a)))

    def seg_of(v, t):
        return (v[t], v[t + 1], v[t + 2], v[t + 3])

    def found(a):
        """the boundary part of POLY_MEETS: some ring of the polygon has a vertex in the box or a segment meeting it"""
        n = terms(a)
        bx = [t.val for t in pbox(a)]
        return exists('int', lambda r: And(r >= n.a, r < n.b,
                                           LINE_MEETS(n.A, n.voff + celli(n.O, r), n.voff + celli(n.O, r + 1), *bx)))

    def ring_has_no_meeting_segment_before(a, r, upto):
        """segments of ring r (logical position in offsets1) starting before cell `upto` miss the box"""
        v, o1 = a.flat_values, a.offsets1
        return forall('int', lambda t: Implies(And(t >= o1[r], t < upto, t + 3 < o1[r + 1], (t - o1[r]) % 2 == 0),
                                               Not(seg_qf(seg_of(v, t), pbox(a)))))

    def rings_done(a, j):
        v, o1 = a.flat_values, a.offsets1
        s0 = a.start_offsets0[a.i]
        return forall(['int', 'int'], lambda r, t: Implies(
            And(r >= s0, r < j, t >= o1[r], t + 3 < o1[r + 1], (t - o1[r]) % 2 == 0), Not(seg_qf(seg_of(v, t), pbox(a)))))

    def common(c):
        a = c.a
        o1 = a.offsets1
        return And(c.start0 == a.start_offsets0[a.i], c.stop0 == a.stop_offsets0[a.i], c.start1 == o1[c.start0],
                   c.stop1 == o1[c.stop0])

    def no_vertex_in_box(c):
        a = c.a
        return forall('int', lambda t: Implies(And(t >= c.start1, t + 1 < c.stop1, (t - c.start1) % 2 == 0), vertex_out(a, t)))

    def result_tracks(c):
        a = c.a
        res = c.view(a.result)
        return And(res[a.i] == Or(a.result[a.i], c.segment_intersects),
                   forall('int', lambda k: Implies(And(k >= 0, k < a.result.n, k != a.i), res[k] == a.result[k])))

    def pp_loop_vertex(c):
        a = c.a
        return [('range', And(common(c), c.k >= c.start1, (c.k - c.start1) % 2 == 0, Not(c.vert_in_rect))),
                ('none-so-far', forall('int', lambda t: Implies(And(t >= c.start1, t < c.k, (t - c.start1) % 2 == 0),
                                                                vertex_out(a, t))))]

    def pp_loop_rings(c):
        a = c.a
        return [('range', And(common(c), c.j >= c.start0, Not(c.vert_in_rect))),
                ('no-vertex-in-box', no_vertex_in_box(c)),
                ('rings-done', Implies(Not(c.segment_intersects), rings_done(a, c.j))),
                ('found', Implies(c.segment_intersects, found(a))),
                ('result', result_tracks(c))]

    def pp_loop_segments(c):
        a = c.a
        o1 = a.offsets1
        return [('range', And(common(c), c.j >= c.start0, c.j < c.stop0, c.k >= o1[c.j], (c.k - o1[c.j]) % 2 == 0,
                              Not(c.vert_in_rect))),
                ('no-vertex-in-box', no_vertex_in_box(c)),
                ('rings-done', Implies(Not(c.segment_intersects), rings_done(a, c.j))),
                ('ring-so-far', Implies(Not(c.segment_intersects), ring_has_no_meeting_segment_before(a, c.j, c.k))),
                ('found', Implies(c.segment_intersects, found(a))),
                ('result', result_tracks(c))]

    def pp_segment_misses(c):
        a = c.a
        return [('this-segment-misses-the-box', Not(seg_qf(seg_of(a.flat_values, c.k), pbox(a))),
                 ['inv:no-vertex-in-box', 'inv:range', 'req:'])]

    def pp_break_segment(c):
        a = c.a
        x0, y0, x1, y1 = pbox(a)
        v, o1 = a.flat_values, a.offsets1
        seg = seg_of(v, c.k)
        out = []
        for nm, edge in (('top', (x0, y1, x1, y1)), ('bottom', (x0, y0, x1, y0)), ('left', (x0, y0, x0, y1)), ('right', (x1, y0, x1, y1))):
            ch, cv = si_candidates(*seg, *edge)
            for q, (s_, t_) in enumerate(ch if nm in ('top', 'bottom') else cv):
                out.append((f'{nm}-{q}', instance(reg, 'seg_qf_exact_complete', ax0=seg[0], ay0=seg[1], ax1=seg[2], ay1=seg[3],
                                                  x0=x0, y0=y0, x1=x1, y1=y1, s=s_)))
        out.append(('this-segment-meets-the-box', seg_qf(seg, pbox(a))))
        n = terms(a)
        jj = o1.off + c.j
        out.append(('this-ring-meets-the-box', LINE_MEETS(n.A, n.voff + celli(n.O, jj), n.voff + celli(n.O, jj + 1),
                                                          *[t.val for t in pbox(a)]),
                    ['hint:this-segment-meets-the-box', 'inv:range', 'req:']))
        out.append(('found', found(a), ['hint:this-ring-meets-the-box', 'inv:range', 'req:']))
        return out

    # ---- ghost steps on branches
    def corners(a):
        x0, y0, x1, y1 = pbox(a)
        return [(x0, y0), (x1, y0), (x1, y1), (x0, y1)]

    def pp_reject(c):
        """bounding box of the polygon disjoint from the box: every ring misses it, every corner has winding number 0"""
        a = c.a
        n = terms(a)
        bx = pbox(a)
        out = bounds_enclose_steps(reg, n.A, n.T, n.S, n.E)
        for side in BSIDES:
            out.append((f'rings-{side}-of-box-miss', instance_forall(
                reg, f'line_{side}_of_box_misses', 'int',
                lambda r: dict(A=n.A, S=n.S, E=n.E, lo=n.voff + celli(n.O, r), hi=n.voff + celli(n.O, r + 1),
                               x0=bx[0], y0=bx[1], x1=bx[2], y1=bx[3]),
                guard=lambda r: And(r >= n.a, r < n.b), patterns=lambda r: [celli(n.O, r).z()])))
        for q, (cx, cy) in enumerate(corners(a)):
            for side, lname in (('right', 'closed_rings_right_of_point_are_zero'), ('left', 'rings_left_of_point_are_zero'),
                                ('above', 'rings_above_of_point_are_zero'), ('below', 'rings_below_of_point_are_zero')):
                out.append((f'corner{q}-{side}', instance(reg, lname, A=n.A, S=n.S, E=n.E, voff=n.voff, O=n.O, ooff=n.ooff,
                                                          j=n.j, x=cx, y=cy)))
        return out

    def pp_accept(c):
        a = c.a
        n = terms(a)
        sh_lo, sh_hi = n.S, n.voff + celli(n.O, n.a + 1)
        out = accept_steps(reg, n.A, n.T, sh_lo, sh_hi, pbox(a))
        out.append(('shell-meets-the-box', LINE_MEETS(n.A, sh_lo, sh_hi, *[t.val for t in pbox(a)])))
        out.append(('found', found(a), ['hint:shell-meets-the-box', 'req:']))
        return out

    def pp_vertex_found(c):
        """the vertex found at cell k lies in one of the rings"""
        a = c.a
        n = terms(a)
        bx = pbox(a)
        t = c.k
        out = [('cell-in-some-ring', instance(reg, 'cell_in_some_ring', O=n.O, a=n.a, b=n.b, t=t))]
        out.append(('ring-with-that-vertex-meets', instance_forall(
            reg, 'vertex_in_box_line_meets', 'int',
            lambda r: dict(A=n.A, lo=n.voff + celli(n.O, r), hi=n.voff + celli(n.O, r + 1), t=n.voff + t,
                           x0=bx[0], y0=bx[1], x1=bx[2], y1=bx[3]), patterns=lambda r: [celli(n.O, r).z()])))
        out.append(('found', found(a)))
        return out

    def pp_nothing_found(c):
        a = c.a
        n = terms(a)
        bx = pbox(a)
        zb = [t.val for t in bx]

        def ring(r):
            return n.voff + celli(n.O, r), n.voff + celli(n.O, r + 1)

        def cellv(k):
            return rcell(n.A, k)
        nov = forall(['int', 'int'], lambda r, t: Implies(
            And(r >= n.a, r < n.b, t >= ring(r)[0], t + 1 < ring(r)[1], (t - ring(r)[0]) % 2 == 0),
            Not(in_box(cellv(t), cellv(t + 1), bx))), patterns=lambda r, t: [z3.MultiPattern(celli(n.O, r).z(), z3.Select(n.A, t.z()))])
        nos = forall(['int', 'int'], lambda r, t: Implies(
            And(r >= n.a, r < n.b, t >= ring(r)[0], t + 3 < ring(r)[1], (t - ring(r)[0]) % 2 == 0),
            Not(seg_qf((cellv(t), cellv(t + 1), cellv(t + 2), cellv(t + 3)), bx))),
            patterns=lambda r, t: [z3.MultiPattern(celli(n.O, r).z(), z3.Select(n.A, (t + 3).z()))])
        miss = forall('int', lambda r: Implies(And(r >= n.a, r < n.b), Not(LINE_MEETS(n.A, ring(r)[0], ring(r)[1], *zb))),
                      patterns=lambda r: [celli(n.O, r).z()])
        return [('no-ring-has-a-vertex-in-the-box', nov, ['inv:no-vertex-in-box', 'inv:range', 'req:']),
                ('no-ring-has-a-segment-meeting-the-box', nos, ['inv:rings-done', 'inv:range', 'req:']),
                ('rings-without-vertex-or-segment-miss', instance_forall(
                    reg, 'line_without_vertex_or_segment_in_box_misses', 'int',
                    lambda r: dict(A=n.A, lo=ring(r)[0], hi=ring(r)[1], x0=bx[0], y0=bx[1], x1=bx[2], y1=bx[3]),
                    guard=lambda r: And(r >= n.a, r < n.b), patterns=lambda r: [celli(n.O, r).z()])),
                ('every-ring-misses', miss, ['hint:no-ring-has', 'lemma:rings-without']),
                ('boundary-misses', Not(found(a)), ['hint:every-ring-misses'])]

    reg.add_lemma(Lemma('vertex_in_box_line_meets', [('A', AV), ('lo', 'int'), ('hi', 'int'), ('t', 'int')] + BOXV,
                        requires=lambda n: [And(n.t >= n.lo, n.t + 1 < n.hi, (n.t - n.lo) % 2 == 0,
                                                in_box(rcell(n.A, n.t), rcell(n.A, n.t + 1), nbox(n)))],
                        ensures=lambda n: [('meets', LINE_MEETS(n.A, n.lo, n.hi, n.x0, n.y0, n.x1, n.y1))], props=P))

    reg.add(Contract(INT + '::_perform_polygon_intersect_bounds', pp_params(), returns=None,
                     requires=pp_requires, ensures=pp_ensures, modifies=('result',),
                     loops={0: Loop(invariant=pp_loop_vertex, var='k'),
                            1: Loop(invariant=pp_loop_rings, var='j'),
                            2: Loop(invariant=pp_loop_segments, var='k', hints=pp_segment_misses, break_hints=pp_break_segment,
                                    keep_using={'ring-so-far': ['inv:', 'hint:this-segment-misses-the-box']})},
                     branches={0: {'then': pp_reject}, 1: {'then': pp_accept}, 3: {'then': pp_vertex_found},
                               13: {'orelse': pp_nothing_found}},
                     props=P, fuel=1))

    # ------------------------------------------------------------ polygons_intersect_bounds / multipolygons_intersect_bounds
    BOXP = [('x0', F), ('y0', F), ('x1', F), ('y1', F)]

    def obox(c):
        return (fmin(c.x0, c.x1), fmin(c.y0, c.y1), fmax(c.x0, c.x1), fmax(c.y0, c.y1))

    def element_terms(c, k, o1, s0k, e0k):
        """as `terms`, for element k of a driver: rings s0k..e0k (logical positions in the ring-offsets view o1)"""
        v = c.flat_values
        n = _N()
        n.A, n.T, n.voff, n.O = v.A, v.T, v.off, o1.A
        n.a, n.b = o1.off + s0k, o1.off + e0k
        n.S, n.E = v.off + celli(n.O, n.a), v.off + celli(n.O, n.b)
        n.ooff, n.j = n.a, n.b - n.a
        return n

    def valid_polygon(c, n, v):
        sh_lo, sh_hi = n.S, n.voff + celli(n.O, n.a + 1)
        spans = And(*[F_(n.A, n.T, n.S + ax, n.E + ax).same(F_(n.A, n.T, sh_lo + ax, sh_hi + ax))
                      for F_ in (MINV, MAXV) for ax in (0, 1)])
        return And(rings_inside(n), celli(n.O, n.a) >= 0, celli(n.O, n.b) <= v.n, rings_closed(n), Implies(n.a < n.b, spans))

    def po_requires(c):
        v, o1, n_el = c.flat_values, c.offsets1, c.start_offsets0.n
        return [('lengths', And(c.stop_offsets0.n >= n_el, c.result.n >= n_el)),
                ('box-positive', And(c.x0 != c.x1, c.y0 != c.y1)),
                ('unit-stride', And(v.stride == 1, o1.stride == 1)),
                ('valid-polygons', forall('int', lambda k: Implies(And(k >= 0, k < n_el), And(
                    c.start_offsets0[k] >= 0, c.start_offsets0[k] <= c.stop_offsets0[k], c.stop_offsets0[k] < o1.n,
                    valid_polygon(c, element_terms(c, k, o1, c.start_offsets0[k], c.stop_offsets0[k]), v)))))]

    def po_cell(c, res, k):
        n = element_terms(c, k, c.offsets1, c.start_offsets0[k], c.stop_offsets0[k])
        return res[k] == POLY_MEETS(n.A, n.voff, n.O, n.a, n.b, *[t.val for t in obox(c)])

    def po_ensures(c, r):
        n_el = c.start_offsets0.n
        return [('cells', forall('int', lambda k: Implies(And(k >= 0, k < n_el), po_cell(c, c.post.result, k)))),
                ('rest-false', forall('int', lambda k: Implies(And(k >= n_el, k < c.result.n), Not(c.post.result[k]))))]

    def po_inv(c):
        a = c.a
        n_el = a.start_offsets0.n
        res = c.view(a.result)
        bx = obox(a)
        return [('range', And(c.i >= 0, c.i <= n_el, c.n == n_el, c.x0 == bx[0], c.y0 == bx[1], c.x1 == bx[2], c.y1 == bx[3])),
                ('done', forall('int', lambda k: Implies(And(k >= 0, k < c.i), po_cell(a, res, k)))),
                ('todo', forall('int', lambda k: Implies(And(k >= c.i, k < a.result.n), Not(res[k]))))]

    reg.add(Contract(INT + '::polygons_intersect_bounds',
                     BOXP + [('flat_values', Arr('float', finite=True)), ('start_offsets0', U32), ('stop_offsets0', U32),
                             ('offsets1', U32), ('result', Arr('bool'))],
                     returns=None, requires=po_requires, ensures=po_ensures, modifies=('result',),
                     loops={0: Loop(invariant=po_inv, var='i')}, props=P, fuel=0))

    # multipolygons: element k = polygons s0k..e0k (positions in offsets1), polygon q = rings offsets1[q]..offsets1[q+1]
    def mp_requires(c):
        v, o1, o2, n_el = c.flat_values, c.offsets1, c.offsets2, c.start_offsets0.n
        return [('lengths', And(c.stop_offsets0.n >= n_el, c.result.n >= n_el)),
                ('box-positive', And(c.x0 != c.x1, c.y0 != c.y1)),
                ('unit-stride', And(v.stride == 1, o1.stride == 1, o2.stride == 1)),
                ('element-ranges', forall('int', lambda k: Implies(And(k >= 0, k < n_el), And(
                    c.start_offsets0[k] >= 0, c.start_offsets0[k] <= c.stop_offsets0[k], c.stop_offsets0[k] < o1.n)))),
                ('valid-polygons', forall('int', lambda q: Implies(And(q >= 0, q < o1.n - 1), And(
                    o1[q] >= 0, o1[q] <= o1[q + 1], o1[q + 1] < o2.n,
                    valid_polygon(c, element_terms(c, q, o2, o1[q], o1[q + 1]), v)))))]

    def mp_meets(c, k):
        v, o1, o2 = c.flat_values, c.offsets1, c.offsets2
        return MPOLY_MEETS(v.A, v.off, o2.A, o2.off, o1.A, o1.off + c.start_offsets0[k], o1.off + c.stop_offsets0[k],
                           *[t.val for t in obox(c)])

    def mp_cell(c, res, k):
        return res[k] == mp_meets(c, k)

    def mp_ensures(c, r):
        n_el = c.start_offsets0.n
        return [('cells', forall('int', lambda k: Implies(And(k >= 0, k < n_el), mp_cell(c, c.post.result, k)))),
                ('rest-false', forall('int', lambda k: Implies(And(k >= n_el, k < c.result.n), Not(c.post.result[k]))))]

    def mp_outer(c):
        a = c.a
        n_el = a.start_offsets0.n
        res = c.view(a.result)
        bx = obox(a)
        return [('range', And(c.i >= 0, c.i <= n_el, c.n == n_el, n_el >= 1, c.x0 == bx[0], c.y0 == bx[1], c.x1 == bx[2], c.y1 == bx[3])),
                ('done', forall('int', lambda k: Implies(And(k >= 0, k < c.i), mp_cell(a, res, k)))),
                ('todo', forall('int', lambda k: Implies(And(k >= c.i, k < a.result.n), Not(res[k]))))]

    def poly_q_meets(a, q):
        o1, o2 = a.offsets1, a.offsets2
        n = element_terms(a, q, o2, o1[q], o1[q + 1])
        return POLY_MEETS(n.A, n.voff, n.O, n.a, n.b, *[t.val for t in obox(a)])

    def mp_inner(c):
        a = c.a
        s0 = a.start_offsets0[c.i]
        er = c.view(c.element_result)
        bx = obox(a)
        return [('polys-range', And(c.i >= 0, c.i < a.start_offsets0.n, c.j >= 0, c.j <= c.num_polys,
                                    c.num_polys == a.stop_offsets0[c.i] - s0, c.element_result.n == c.num_polys,
                                    c.x0 == bx[0], c.y0 == bx[1], c.x1 == bx[2], c.y1 == bx[3])),
                ('polys-done', forall('int', lambda m: Implies(And(m >= 0, m < c.j), er[m] == poly_q_meets(a, s0 + m)))),
                # the same over raw positions q in the polygon-offsets array (trigger O1[q]): the instance for the witness
                # of MPOLY_MEETS
                ('polys-done-by-position', forall('int', lambda q: Implies(
                    And(q >= a.offsets1.off + s0, q < a.offsets1.off + s0 + c.j),
                    er[q - a.offsets1.off - s0] == poly_q_meets(a, q - a.offsets1.off)),
                    patterns=lambda q: [z3.Select(a.offsets1.A, q.z())])),
                ('polys-todo', forall('int', lambda m: Implies(And(m >= c.j, m < c.num_polys), Not(er[m]))))]

    def mp_hints(c):
        a = c.a
        res = c.view(a.result)
        meets = mp_meets(a, c.i)
        use = ['inv:polys-range', 'inv:polys-done', 'inv:polys-todo', 'inv:range']
        return [('any-implies-meets', Implies(res[c.i], meets), use),
                ('meets-implies-any', Implies(meets, res[c.i]), ['inv:polys-range', 'inv:polys-done-by-position', 'inv:range']),
                ('this-element', mp_cell(a, res, c.i), ['inv:range', 'hint:any-implies-meets', 'hint:meets-implies-any'])]

    reg.add(Contract(INT + '::multipolygons_intersect_bounds',
                     BOXP + [('flat_values', Arr('float', finite=True)), ('start_offsets0', U32), ('stop_offsets0', U32),
                             ('offsets1', U32), ('offsets2', U32), ('result', Arr('bool'))],
                     returns=None, requires=mp_requires, ensures=mp_ensures, modifies=('result',),
                     loops={0: Loop(invariant=mp_outer, var='i', hints=mp_hints,
                                    keep_using={'done': ['inv:', 'hint:this-element']}),
                            1: Loop(invariant=mp_inner, var='j')}, props=P, fuel=1))

    HELPERS['valid_polygon_at'] = lambda v, oview, lo, hi: valid_polygon(None, _terms_for(v, oview, lo, hi), v)


def _terms_for(v, o1, s0k, e0k):
    class _N2:
        pass
    n = _N2()
    n.A, n.T, n.voff, n.O = v.A, v.T, v.off, o1.A
    n.a, n.b = o1.off + s0k, o1.off + e0k
    n.S, n.E = v.off + celli(n.O, n.a), v.off + celli(n.O, n.b)
    n.ooff, n.j = n.a, n.b - n.a
    return n
