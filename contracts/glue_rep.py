"""Glue layer under contract (DESIGN 4): the pyarrow-backed representation of list geometry arrays, the
buffer layer of _ListArrayBufferMixin, and the thin methods built on it.

Model of a pyarrow ListArray with L offset levels (assumed contracts of pyarrow, DESIGN App. A):
  rec 'ListArray': offset, length, bufs = (valid_0, off_0, ..., valid_{L-1}, off_{L-1}, valid_vals, values);
  buffers() returns bufs; len() returns length; np.asarray(buf).view(dtype) is the typed array itself.
well_formed(rep): off_0 has offset+length+1 entries; every off_k is non-decreasing; values of off_k index
off_{k+1} (the last level indexes pairs of the coordinate buffer, ranges of even length); child arrays
have offset zero.  The abstract view: element i covers the coordinate cells
  OUT(i) .. OUT(i+1)  with  OUT(i) = off_{L-1}[ ... off_1[ off_0[offset + i] ] ].
"""
import z3

from pyvc import state as st
from pyvc.contracts import (Arr, ArrView, Contract, Flt, Int, Loop, Rec, Sort, Tup, labelled, same_array)
from pyvc.values import (FIN, NONE, SArr, SBool, SFloat, SInt, SRecord, SStr, STuple, And, Implies, Ite, Not, Or,
                         forall, fresh_name, int_sort, to_int)
from pyvc.builtins_np import DType
from .c13_bounds import total_bounds_spec, ext_lo
from .c14_measures import offsets_ok

BL = 'spatialpandas/geometry/baselist.py'
BASE = 'spatialpandas/geometry/base.py'

KIND_OF_LEVELS = {1: 'LineArray', 2: 'PolygonArray', 3: 'MultiPolygonArray'}


class ListGeomArray(Sort):
    """a geometry list array object (self) with L offset levels"""

    def __init__(self, levels, cls=None, finite=False, validity=True):
        self.levels = levels
        self.cls = cls or KIND_OF_LEVELS[levels]
        self.finite = finite
        self.validity = validity

    def make(self, state, name):
        assumptions = []
        bufs = []
        for k in range(self.levels):
            if self.validity and k == 0:
                nb = SInt(z3.Int(fresh_name(name + '_vlen')))
                assumptions.append(nb >= 0)
                vb = st.new_sym_array(state, 'int', 'uint8', [nb], name + '_valid')
                vb.base.meta['buffer'] = True
                bufs.append(vb)
            else:
                bufs.append(NONE)
            n = SInt(z3.Int(fresh_name(f'{name}_off{k}_len')))
            assumptions.append(n >= 0)
            ob = st.new_sym_array(state, 'int', 'uint32', [n], f'{name}_off{k}')
            ob.base.meta['buffer'] = True
            bufs.append(ob)
        bufs.append(NONE)
        nv = SInt(z3.Int(fresh_name(name + '_vals_len')))
        assumptions.append(nv >= 0)
        vals = st.new_sym_array(state, 'float', 'float64', [nv], name + '_vals', finite=self.finite)
        vals.base.meta['buffer'] = True
        bufs.append(vals)
        off = SInt(z3.Int(fresh_name(name + '_offset')))
        ln = SInt(z3.Int(fresh_name(name + '_length')))
        assumptions += [off >= 0, ln >= 0]
        rep = SRecord('ListArray', {'offset': off, 'length': ln, 'bufs': STuple(bufs)})
        rep.fields['m:buffers'] = lambda eng, s, fr, obj, args, kwargs, lineno: obj.fields['bufs']
        vals.base.meta['coordinate_dtype'] = True
        me = SRecord(self.cls, {'listarray': rep, 'data': rep, 'numpy_dtype': DType('float64', coordinate=True), '_sindex': NONE,
                                '_element_len': SInt(2)})
        return me, assumptions


    def gen(self, rng, config):
        """a random well-formed array of this kind as a typed record (witness search / cross-check):
        a parent buffer with a few elements, seen through a random (offset, length) window"""
        from pyvc.witness import gen_float
        L = self.levels
        n_parent = rng.choice([1, 2, 3, 4, 5])
        aligned = rng.random() < 0.2
        if aligned:
            n_parent = rng.choice([9, 12, 17, 20])      # room for a window starting at a byte-aligned offset
        # build top-down counts so that every level is consistent
        counts = [n_parent]
        levels = []
        for k in range(L):
            cur = [0]
            for _ in range(counts[-1]):
                if k == L - 1:
                    cur.append(cur[-1] + 2 * rng.choice([0, 1, 1, 2, 3, 4]))
                else:
                    cur.append(cur[-1] + rng.choice([0, 1, 1, 2]))
            if (k == L - 2 and self.cls in ('PolygonArray', 'MultiPolygonArray') and counts[-1] >= 2 and rng.random() < 0.3):
                # as many rings as polygons, some polygon with holes and some without any ring: offsets arrays of
                # equal length (a coincidence that "no holes" shortcuts are tempted to test for)
                m = counts[-1]
                per = [1] * m
                for _ in range(rng.randint(1, max(1, m // 2))):
                    a_, b_ = rng.randrange(m), rng.randrange(m)
                    if a_ != b_ and per[b_] > 0:
                        per[a_] += 1
                        per[b_] -= 1
                cur = [0]
                for c_ in per:
                    cur.append(cur[-1] + c_)
            levels.append(cur)
            counts.append(cur[-1])
        values = [gen_float(rng, self.finite) for _ in range(levels[-1][-1])]
        coord_dtype = rng.choice([None] * 6 + ['int32', 'int16', 'int64', 'float32'])
        if coord_dtype and coord_dtype.startswith('int'):
            big = 1025 if rng.random() < 0.3 else 1      # large exact coordinates: measures beyond 2**24
            values = [float(big * rng.choice([0, 1, -1, 2, 3, -2, 4])).hex() for _ in values]
        if self.cls in ('PolygonArray', 'MultiPolygonArray') and rng.random() < 0.7:
            # valid polygons: closed rectangular rings, the first ring of a polygon is the shell, the others lie inside it
            ring_off = [0]
            polys = levels[-2]            # polygon -> ring positions
            values = []
            for pi in range(len(polys) - 1):
                cx, cy = rng.randint(-3, 5), rng.randint(-3, 5)
                w, h = rng.randint(2, 4), rng.randint(2, 4)
                for ri in range(polys[pi + 1] - polys[pi]):
                    if ri == 0:
                        x0, y0, x1, y1 = cx - w, cy - h, cx + w, cy + h
                    else:
                        x0, y0, x1, y1 = cx - w + 1, cy - h + 1, cx - w + 1 + rng.choice([0.5, 1]), cy - h + 1 + rng.choice([0.5, 1])
                    ring = [x0, y0, x1, y0, x1, y1, x0, y1, x0, y0]
                    if rng.random() < 0.5:
                        ring = [c for p in list(zip(ring[0::2], ring[1::2]))[::-1] for c in p]
                    if rng.random() < 0.1:
                        ring = []
                    values += [float(c).hex() for c in ring]
                    ring_off.append(len(values))
            levels[-1] = ring_off
        off = rng.randint(0, n_parent)
        if aligned:
            off = 8 * rng.randint(1, n_parent // 8)
        ln = rng.randint(0, n_parent - off)
        bufs = []
        for k in range(L):
            if self.validity and k == 0:
                nbytes = (n_parent + 7) // 8
                bits = [rng.randint(0, 255) | (0 if rng.random() < 0.5 else 255) for _ in range(nbytes)]
                bufs.append({'k': 'array', 'dtype': 'uint8', 'shape': [nbytes], 'data': bits})
            else:
                bufs.append({'k': 'none'})
            bufs.append({'k': 'array', 'dtype': 'uint32', 'shape': [len(levels[k])], 'data': levels[k]})
        bufs.append({'k': 'none'})
        bufs.append({'k': 'array', 'dtype': 'float64', 'shape': [len(values)], 'data': values})
        rep = {'k': 'record', 'cls': 'ListArray', 'fields': {'offset': {'k': 'int', 'v': off}, 'length': {'k': 'int', 'v': ln},
                                                            'bufs': {'k': 'tuple', 'items': bufs}}}
        # the real array gets another coordinate subtype when every coordinate is exactly representable in it (the
        # contract is evaluated over the same real numbers; only the native side sees the subtype)
        fl = [float.fromhex(x) for x in values if x not in ('nan', 'inf', '-inf')]
        if coord_dtype and len(fl) == len(values) and (coord_dtype == 'float32' or all(v_.is_integer() and abs(v_) < 2 ** 14 for v_ in fl)):
            rep['fields']['coord_dtype'] = {'k': 'other', 'v': coord_dtype}
        return {'k': 'record', 'cls': self.cls, 'fields': {'listarray': rep, 'data': rep}}


def rep_of(selfv):
    return selfv.listarray


def offs_of(selfv, levels):
    b = rep_of(selfv).bufs
    return [b[2 * k + 1] for k in range(levels)]


def vals_of(selfv):
    return rep_of(selfv).bufs[-1]


def well_formed(selfv, levels):
    rep = rep_of(selfv)
    offs = offs_of(selfv, levels)
    vals = vals_of(selfv)
    out = [('first-level-long-enough', offs[0].n >= rep.offset + rep.length + 1)]
    for k, o in enumerate(offs):
        out.append((f'level{k}-non-decreasing', forall(['int', 'int'], lambda a, b, o=o: Implies(
            And(a >= 0, a <= b, b < o.n), o[a] <= o[b]))))
        nxt = offs[k + 1] if k + 1 < levels else None
        if nxt is not None:
            out.append((f'level{k}-indexes-level{k + 1}', forall('int', lambda a, o=o, nxt=nxt: Implies(
                And(a >= 0, a < o.n), And(o[a] >= 0, o[a] < nxt.n)))))
        else:
            out.append((f'level{k}-indexes-coordinate-pairs', forall('int', lambda a, o=o: Implies(
                And(a >= 0, a < o.n), And(o[a] >= 0, o[a] <= vals.n, o[a] % 2 == 0)))))
    return out


def OUT(selfv, levels, i):
    """first coordinate cell of element i of the view (i may be length: one past the last)"""
    rep = rep_of(selfv)
    offs = offs_of(selfv, levels)
    x = offs[0][rep.offset + i]
    for o in offs[1:]:
        x = o[x]
    return x


def register(reg):
    for L in (1, 2, 3):
        cfg = {'levels': L}
    CFG = [{'levels': 1}, {'levels': 2}, {'levels': 3}]

    def S(cfg, **kw):
        return ListGeomArray(cfg['levels'], **kw)

    def L_of(c):
        return c.config['levels']

    def wf(c):
        return well_formed(c.self, L_of(c))

    # ------------------------------------------------------------ buffer_values
    reg.add(Contract(BL + '::_ListArrayBufferMixin.buffer_values', lambda cfg: [('self', S(cfg))],
                     returns=lambda c: vals_of(c.self),
                     ensures=lambda c, r: [('is-the-coordinate-buffer', same_array(r, vals_of(c.self)))],
                     configs=CFG, flags=('property',), props=('C16', 'C13', 'C14')))

    # ------------------------------------------------------------ buffer_offsets
    def bo_value(c):
        rep = rep_of(c.self)
        offs = offs_of(c.self, L_of(c))
        return tuple([offs[0].sub(rep.offset, rep.length + 1)] + offs[1:])

    def bo_ens(c, r):
        exp = bo_value(c)
        return [('levels', SBool(len(r) == len(exp)))] + \
               [(f'level{k}-window', same_array(r[k], exp[k])) for k in range(min(len(r), len(exp)))]

    reg.add(Contract(BL + '::_ListArrayBufferMixin.buffer_offsets', lambda cfg: [('self', S(cfg))],
                     returns=bo_value, requires=wf, ensures=bo_ens,
                     configs=CFG, flags=('property',), props=('C16', 'C13', 'C14')))

    # ------------------------------------------------------------ flat_values
    def fv_value(c):
        rep = rep_of(c.self)
        L = L_of(c)
        a, b = OUT(c.self, L, SInt(0)), OUT(c.self, L, rep.length)
        return vals_of(c.self).sub(a, b - a)

    reg.add(Contract(BL + '::_ListArrayBufferMixin.flat_values', lambda cfg: [('self', S(cfg))],
                     returns=fv_value, requires=wf,
                     ensures=lambda c, r: [('exactly-the-coordinates-of-the-elements', same_array(r, fv_value(c)))],
                     configs=CFG, flags=('property',), props=('C16', 'C13')))

    # ------------------------------------------------------------ buffer_outer_offsets
    def boo_ens(c, r):
        rep = rep_of(c.self)
        L = L_of(c)
        return [('length', r.n == rep.length + 1),
                ('composition', forall('int', lambda k: Implies(And(k >= 0, k <= rep.length), r[k] == OUT(c.self, L, k))))]

    reg.add(Contract(BL + '::_ListArrayBufferMixin.buffer_outer_offsets', lambda cfg: [('self', S(cfg))],
                     returns=Arr('int', 'uint32'), requires=wf, ensures=boo_ens,
                     configs=CFG, flags=('property',), props=('C16', 'C13', 'C01')))

    # ------------------------------------------------------------ GeometryListArray.bounds / total_bounds*
    def bounds_ens(c, r):
        rep = rep_of(c.self)
        L = L_of(c)
        v = vals_of(c.self)

        def row(k):
            exp = total_bounds_spec(v, OUT(c.self, L, k), OUT(c.self, L, k + 1))
            return And(*[r[k, j].same(exp[j]) for j in range(4)])
        return [('shape', And(r.shape[0] == rep.length, r.shape[1] == 4)),
                ('row-i-is-extent-of-element-i', forall('int', lambda k: Implies(And(k >= 0, k < rep.length), row(k))))]

    reg.add(Contract(BL + '::GeometryListArray.bounds', lambda cfg: [('self', S(cfg))],
                     returns=Arr('float', ndim=2, cols=4), requires=wf, ensures=bounds_ens,
                     configs=CFG, flags=('property',), props=('C13', 'C16', 'C17')))

    def tb_ens(c, r):
        rep = rep_of(c.self)
        L = L_of(c)
        exp = total_bounds_spec(vals_of(c.self), OUT(c.self, L, SInt(0)), OUT(c.self, L, rep.length))
        return [(lbl, r[k].same(exp[k])) for k, lbl in enumerate(['xmin', 'ymin', 'xmax', 'ymax'])]

    reg.add(Contract(BL + '::GeometryListArray.total_bounds', lambda cfg: [('self', S(cfg))],
                     returns=Tup(Flt(), Flt(), Flt(), Flt()), requires=wf, ensures=tb_ens,
                     configs=CFG, flags=('property',), props=('C13', 'C16', 'C17')))

    def tb1_ens(axis):
        def ens(c, r):
            rep = rep_of(c.self)
            L = L_of(c)
            lo, hi = ext_lo(vals_of(c.self), OUT(c.self, L, SInt(0)) + axis, OUT(c.self, L, rep.length) + axis)
            return [('min', r[0].same(lo)), ('max', r[1].same(hi))]
        return ens

    for axis, nm in ((0, 'total_bounds_x'), (1, 'total_bounds_y')):
        reg.add(Contract(BL + '::GeometryListArray.' + nm, lambda cfg: [('self', S(cfg))],
                         returns=Tup(Flt(), Flt()), requires=wf, ensures=tb1_ens(axis),
                         configs=CFG, flags=('property',), props=('C13', 'C16', 'C17')))
