"""C02 - point-versus-shape kernels: segment_intersects_point, point_intersects_polygon (intersection.py)
and the array kernels _perform_intersects_{multipoint,line,polygon} (point.py).  Real arithmetic (QF_NRA).

Spec: winding number  WN = sum over rings, sum over edges of contrib(edge, p), with the declarative
per-edge contribution (half-open rule):  for a non-horizontal edge with lower end lo, upper end hi and
direction dir = +1 (stored upwards) / -1:   dir  if  lo.y < p.y <= hi.y  and  cross(lo-p, hi-p) >= 0,  else 0.
"""
import z3

from pyvc.contracts import Arr, Bool, Contract, Flt, Int, Lemma, Loop, RecSpec
from pyvc.values import (FIN, SBool, SFloat, SInt, And, Implies, Ite, Not, Or, exists, forall, to_int)
from .c14_measures import AO, AV, celli, offsets_ok

P = ('C02',)
INT = 'spatialpandas/geometry/_algorithms/intersection.py'
PT = 'spatialpandas/geometry/point.py'
R = z3.RealSort()


def rcell(A, k):
    return SFloat(FIN, z3.Select(A, to_int(k).z()))


def contrib(x0, y0, x1, y1, x, y):
    """winding contribution of the directed edge (x0,y0)->(x1,y1) for the point (x,y): an integer in {-1,0,1}"""
    up = y0 < y1
    lox, loy = Ite(up, x0, x1), Ite(up, y0, y1)
    hix, hiy = Ite(up, x1, x0), Ite(up, y1, y0)
    cross = (lox - x) * (hiy - y) - (loy - y) * (hix - x)
    hit = And(loy < y, y <= hiy, cross >= SFloat.const(0.0))
    return Ite(y0 == y1, SInt(0), Ite(hit, Ite(up, SInt(1), SInt(-1)), SInt(0)))


def _edge_contrib(A, k, x, y):
    return contrib(rcell(A, k), rcell(A, k + 1), rcell(A, k + 2), rcell(A, k + 3), x, y)


# sum of contributions of the edges starting at vertices lo, lo+2, ..., < m
WNR = RecSpec('WNR', [AV, 'int', 'int', R, R], 'int',
              lambda self, A, lo, m, x, y: Ite(m <= lo, SInt(0), self(A, lo, m - 2, x, y) + _edge_contrib(A, m - 2, x, y)))

# sum over the first j rings given by offsets O (ring r has edges starting at O[r] .. O[r+1]-4)
WNRINGS = RecSpec('WNRINGS', [AV, 'int', AO, 'int', 'int', R, R], 'int',
                  lambda self, A, voff, O, ooff, j, x, y: Ite(
                      j <= 0, SInt(0),
                      self(A, voff, O, ooff, j - 1, x, y) +
                      WNR(A, voff + celli(O, ooff + j - 1), voff + celli(O, ooff + j) - 2, x, y)))


def wn_spec(v, o, x, y):
    return WNRINGS(v.A, v.off, o.A, o.off, o.n - 1, x, y)


def onseg_qf(ax0, ay0, ax1, ay1, bx, by):
    """quantifier-free form of 'b lies on the closed segment a0-a1'"""
    inx = And(Or(And(ax0 <= bx, bx <= ax1), And(ax1 <= bx, bx <= ax0)))
    iny = And(Or(And(ay0 <= by, by <= ay1), And(ay1 <= by, by <= ay0)))
    cross = (ax1 - ax0) * (by - ay0) - (ay1 - ay0) * (bx - ax0)
    return And(inx, iny, cross == SFloat.const(0.0))


def register(reg):
    register_line(reg)
    F = Flt(finite=True)
    # ------------------------------------------------------------ segment_intersects_point
    reg.add(Contract(INT + '::segment_intersects_point',
                     [(n, F) for n in ('ax0', 'ay0', 'ax1', 'ay1', 'bx', 'by')], returns=Bool(),
                     ensures=lambda c, r: [('on-segment', r == onseg_qf(c.ax0, c.ay0, c.ax1, c.ay1, c.bx, c.by))],
                     props=P))

    # declarative reading: onseg_qf  <=>  exists t in [0,1]. a0 + t (a1 - a0) = b
    names = ['ax0', 'ay0', 'ax1', 'ay1', 'bx', 'by']

    def on_param(n, t):
        return And(t >= SFloat.const(0.0), t <= SFloat.const(1.0),
                   n.ax0 + t * (n.ax1 - n.ax0) == n.bx, n.ay0 + t * (n.ay1 - n.ay0) == n.by)

    def wit(n):
        dx, dy = n.ax1 - n.ax0, n.ay1 - n.ay0
        z = SFloat.const(0.0)
        return Ite(dx != z, (n.bx - n.ax0) / Ite(dx != z, dx, SFloat.const(1.0)),
                   Ite(dy != z, (n.by - n.ay0) / Ite(dy != z, dy, SFloat.const(1.0)), z))

    reg.add_lemma(Lemma('onseg_qf_implies_parametric', [(x, 'real') for x in names],
                        requires=lambda n: [onseg_qf(n.ax0, n.ay0, n.ax1, n.ay1, n.bx, n.by)],
                        ensures=lambda n: [('witness-t', on_param(n, wit(n)))], props=P))
    reg.add_lemma(Lemma('parametric_implies_onseg_qf', [(x, 'real') for x in names + ['t']],
                        requires=lambda n: [on_param(n, n.t)],
                        ensures=lambda n: [('qf', onseg_qf(n.ax0, n.ay0, n.ax1, n.ay1, n.bx, n.by))], props=P))

    # ------------------------------------------------------------ point_intersects_polygon
    def pip_requires(c):
        v, o = c.values, c.value_offsets
        return [('at-least-one-offset', o.n >= 1), ('unit-stride', And(v.stride == 1, o.stride == 1)),
                ('offsets-ok', offsets_ok(o, v))]

    def pip_outer(c):
        v, o = c.a.values, c.a.value_offsets
        return [('range', And(c.i >= 0, c.i <= o.n - 1)),
                ('winding', c.winding_number == WNRINGS(v.A, v.off, o.A, o.off, c.i, c.a.x, c.a.y))]

    def pip_inner(c):
        v, o = c.a.values, c.a.value_offsets
        k = c.k
        return [('range', And(c.i >= 0, c.i < o.n - 1, c.start == o[c.i], c.stop == o[c.i + 1],
                              k >= c.start, (k - c.start) % 2 == 0, Or(k <= c.stop - 2, k == c.start))),
                ('winding', c.winding_number == WNRINGS(v.A, v.off, o.A, o.off, c.i, c.a.x, c.a.y) +
                 WNR(v.A, v.off + c.start, v.off + k, c.a.x, c.a.y))]

    reg.add(Contract(INT + '::point_intersects_polygon',
                     [('x', F), ('y', F), ('values', Arr('float', finite=True)), ('value_offsets', Arr('int', 'uint32'))],
                     returns=Bool(), requires=pip_requires,
                     ensures=lambda c, r: [('winding-number-nonzero', r == (wn_spec(c.values, c.value_offsets, c.x, c.y) != 0))],
                     loops={0: Loop(invariant=pip_outer, var='i'), 1: Loop(invariant=pip_inner, var='k')},
                     props=P + ('C01',), fuel=2, merge=False))

    # sanity lemmas about the spec: reversing an edge negates its contribution; |contrib| <= 1
    en = ['x0', 'y0', 'x1', 'y1', 'x', 'y']
    reg.add_lemma(Lemma('contrib_reversed_edge_negates', [(x, 'real') for x in en],
                        ensures=lambda n: [('neg', contrib(n.x1, n.y1, n.x0, n.y0, n.x, n.y) ==
                                            -contrib(n.x0, n.y0, n.x1, n.y1, n.x, n.y))], props=P + ('C15',),
                        tactic='qfnra-nlsat'))
    reg.add_lemma(Lemma('contrib_translation_invariant', [(x, 'real') for x in en + ['dx', 'dy']],
                        ensures=lambda n: [('same', contrib(n.x0 + n.dx, n.y0 + n.dy, n.x1 + n.dx, n.y1 + n.dy,
                                                            n.x + n.dx, n.y + n.dy) ==
                                            contrib(n.x0, n.y0, n.x1, n.y1, n.x, n.y))], props=P))

    # rectangle sanity: for the CCW rectangle (a,b)-(c,d) the four edge contributions sum to 1 strictly
    # inside and 0 strictly outside (spec sanity, independent of the code)
    def rect_wn(n):
        a, b, c, d, x, y = n.a, n.b, n.c, n.d, n.x, n.y
        return (contrib(a, b, c, b, x, y) + contrib(c, b, c, d, x, y) +
                contrib(c, d, a, d, x, y) + contrib(a, d, a, b, x, y))
    rn = ['a', 'b', 'c', 'd', 'x', 'y']
    reg.add_lemma(Lemma('rectangle_winding_inside', [(x, 'real') for x in rn],
                        requires=lambda n: [And(n.a < n.x, n.x < n.c, n.b < n.y, n.y < n.d)],
                        ensures=lambda n: [('one', rect_wn(n) == 1)], props=P))
    reg.add_lemma(Lemma('rectangle_winding_outside', [(x, 'real') for x in rn],
                        requires=lambda n: [And(n.a < n.c, n.b < n.d, Or(n.x < n.a, n.x > n.c, n.y < n.b, n.y > n.d))],
                        ensures=lambda n: [('zero', rect_wn(n) == 0)], props=P))

    # ------------------------------------------------------------ _perform_intersects_polygon
    def inds_ok(c):
        return forall('int', lambda k: Implies(And(k >= 0, k < c.inds.n),
                                               And(c.inds[k] >= 0, 2 * c.inds[k] + 1 < c.flat_points.n)))

    def pp_requires(c):
        v, o = c.flat_polygons, c.offsets
        return [('at-least-one-offset', o.n >= 1),
                ('unit-stride', And(v.stride == 1, o.stride == 1, c.flat_points.stride == 1, c.inds.stride == 1)),
                ('offsets-ok', offsets_ok(o, v)), ('inds-in-range', inds_ok(c))]

    def pp_cell(c, res, k):
        j = c.inds[k]
        return res[k] == (wn_spec(c.flat_polygons, c.offsets, c.flat_points[2 * j], c.flat_points[2 * j + 1]) != 0)

    reg.add(Contract(PT + '::_perform_intersects_polygon',
                     [('flat_points', Arr('float', finite=True)), ('flat_polygons', Arr('float', finite=True)),
                      ('offsets', Arr('int', 'uint32')), ('inds', Arr('int', 'int64'))],
                     returns=Arr('bool'), requires=pp_requires,
                     ensures=lambda c, r: [('length', r.n == c.inds.n),
                                           ('cells', forall('int', lambda k: Implies(And(k >= 0, k < c.inds.n), pp_cell(c, r, k))))],
                     loops={0: Loop(var='i', invariant=lambda c: [
                         ('range', And(c.i >= 0, c.i <= c.a.inds.n, c.result.n == c.a.inds.n, c.n == c.a.inds.n)),
                         ('done', forall('int', lambda k: Implies(And(k >= 0, k < c.i), pp_cell(c.a, c.result, k))))])},
                     props=P))

    # ------------------------------------------------------------ _perform_intersects_multipoint
    def mp_requires(c):
        return [('unit-stride', And(c.flat_points.stride == 1, c.flat_multipoint.stride == 1, c.inds.stride == 1)),
                ('even-length', c.flat_multipoint.n % 2 == 0), ('inds-in-range', inds_ok(c))]

    def mp_cell(c, res, k):
        j = c.inds[k]
        x, y = c.flat_points[2 * j], c.flat_points[2 * j + 1]
        m = c.flat_multipoint
        return res[k] == exists('int', lambda q: And(q >= 0, 2 * q + 1 < m.n, m[2 * q] == x, m[2 * q + 1] == y))

    reg.add(Contract(PT + '::_perform_intersects_multipoint',
                     [('flat_points', Arr('float', finite=True)), ('flat_multipoint', Arr('float', finite=True)),
                      ('inds', Arr('int', 'int64'))],
                     returns=Arr('bool'), requires=mp_requires,
                     ensures=lambda c, r: [('length', r.n == c.inds.n),
                                           ('cells', forall('int', lambda k: Implies(And(k >= 0, k < c.inds.n), mp_cell(c, r, k))))],
                     loops={0: Loop(var='i', invariant=lambda c: [
                         ('range', And(c.i >= 0, c.i <= c.a.inds.n, c.result.n == c.a.inds.n, c.n == c.a.inds.n)),
                         ('done', forall('int', lambda k: Implies(And(k >= 0, k < c.i), mp_cell(c.a, c.result, k))))])},
                     props=P))


def register_line(reg):
    """_perform_intersects_line: a point hits a (multi)line iff it equals a vertex or lies on a segment of one
    of the lines"""
    def seg_at(v, t, x, y):
        # the segment whose first vertex is stored at cell t
        return onseg_qf(v[t], v[t + 1], v[t + 2], v[t + 3], x, y)

    def line_hit(v, lo, hi, x, y, seg_bound=None):
        # single-index (cell position) formulation: quantifier instances are found by matching v[t]
        vert = exists('int', lambda t: And(t >= lo, t + 1 < hi, (t - lo) % 2 == 0, v[t] == x, v[t + 1] == y))
        seg = exists('int', lambda t: And(t >= lo, t + 3 < hi, (t - lo) % 2 == 0, seg_at(v, t, x, y)))
        return Or(vert, seg)

    def lines_hit(c, x, y, upto):
        v, o = c.flat_lines, c.offsets
        return exists('int', lambda k: And(k >= 0, k < upto, line_hit(v, o[k], o[k + 1], x, y)))

    def inds_ok(c):
        return forall('int', lambda k: Implies(And(k >= 0, k < c.inds.n),
                                               And(c.inds[k] >= 0, 2 * c.inds[k] + 1 < c.flat_points.n)))

    def req(c):
        v, o = c.flat_lines, c.offsets
        return [('at-least-one-offset', o.n >= 1),
                ('unit-stride', And(v.stride == 1, o.stride == 1, c.flat_points.stride == 1, c.inds.stride == 1)),
                ('offsets-ok', offsets_ok(o, v)), ('inds-in-range', inds_ok(c)),
                ('lines-non-empty', forall('int', lambda k: Implies(And(k >= 0, k < o.n - 1), o[k + 1] - o[k] >= 2),
                                           patterns=lambda k: [z3.MultiPattern(o[k].z(), o[k + 1].z())]))]

    def cell_ok(c, res, k):
        j = c.inds[k]
        return res[k] == lines_hit(c, c.flat_points[2 * j], c.flat_points[2 * j + 1], c.offsets.n - 1)

    def inv_i(c):
        return [('range', And(c.i >= 0, c.i <= c.a.inds.n, c.result.n == c.a.inds.n, c.n == c.a.inds.n)),
                ('done', forall('int', lambda k: Implies(And(k >= 0, k < c.i), cell_ok(c.a, c.result, k)))),
                ('todo', forall('int', lambda k: Implies(And(k >= c.i, k < c.a.inds.n), Not(c.result[k]))))]

    def inv_k(c):
        a = c.a
        return [('range', And(c.i >= 0, c.i < a.inds.n, c.k >= 0, c.k <= a.offsets.n - 1, c.result.n == a.inds.n,
                              c.n == a.inds.n, c.j == a.inds[c.i], c.x == a.flat_points[2 * c.j],
                              c.y == a.flat_points[2 * c.j + 1])),
                ('done', forall('int', lambda q: Implies(And(q >= 0, q < c.i), cell_ok(a, c.result, q)))),
                ('todo', forall('int', lambda q: Implies(And(q > c.i, q < a.inds.n), Not(c.result[q])))),
                ('this', c.result[c.i] == lines_hit(a, c.x, c.y, c.k))]

    def inv_m(c):
        a = c.a
        v, o = a.flat_lines, a.offsets
        lo, hi = o[c.k], o[c.k + 1]
        return [('range', And(c.i >= 0, c.i < a.inds.n, c.k >= 0, c.k < o.n - 1, c.result.n == a.inds.n,
                              c.n == a.inds.n, c.m >= 0, Or(2 * c.m + 2 <= hi - lo, c.m == 0), c.j == a.inds[c.i],
                              c.x == a.flat_points[2 * c.j], c.y == a.flat_points[2 * c.j + 1],
                              c.line_xs.n * 2 == hi - lo, c.line_ys.n * 2 == hi - lo)),
                ('views', And(c.line_xs.off == v.off + lo, c.line_ys.off == v.off + lo + 1,
                              c.line_xs.stride == 2, c.line_ys.stride == 2)),
                ('done', forall('int', lambda q: Implies(And(q >= 0, q < c.i), cell_ok(a, c.result, q)))),
                ('todo', forall('int', lambda q: Implies(And(q > c.i, q < a.inds.n), Not(c.result[q])))),
                ('this', c.result[c.i] == lines_hit(a, c.x, c.y, c.k)),
                ('no-vertex', forall('int', lambda t: Implies(And(t >= lo, t + 1 < hi, (t - lo) % 2 == 0),
                                                              Not(And(v[t] == c.x, v[t + 1] == c.y))))),
                ('no-earlier-segment', forall('int', lambda t: Implies(And(t >= lo, t < lo + 2 * c.m, (t - lo) % 2 == 0),
                                                                       Not(seg_at(v, t, c.x, c.y)))))]

    def no_vertex_steps(c):
        # the point equals no vertex of line k: numpy's any() over the strided coordinate views, restated per cell
        a = c.a
        v, o = a.flat_lines, a.offsets
        lo, hi = o[c.k], o[c.k + 1]
        xs, ys = c.line_xs, c.line_ys
        views = And(xs.off == v.off + lo, ys.off == v.off + lo + 1, xs.stride == 2, ys.stride == 2,
                    xs.n * 2 == hi - lo, ys.n * 2 == hi - lo)
        per_vertex = forall('int', lambda t: Implies(And(t >= lo, t + 1 < hi, (t - lo) % 2 == 0),
                                                     Not(And(xs[(t - lo) // 2] == c.x, ys[(t - lo) // 2] == c.y))))
        per_cell = forall('int', lambda t: Implies(And(t >= lo, t + 1 < hi, (t - lo) % 2 == 0),
                                                   Not(And(v[t] == c.x, v[t + 1] == c.y))))
        return [('line-views', views),
                ('no-vertex-by-number', per_vertex),
                ('no-vertex-by-cell', per_cell, ['hint:line-views', 'hint:no-vertex-by-number'])]

    def seg_steps(c):
        # the segment just tested (vertex number m of line k) does not contain the point
        a = c.a
        v, o = a.flat_lines, a.offsets
        lo = o[c.k]
        return [('this-segment-misses', Not(seg_at(v, lo + 2 * c.m, c.x, c.y)), ['inv:views', 'inv:range'])]

    reg.add(Contract(PT + '::_perform_intersects_line',
                     [('flat_points', Arr('float', finite=True)), ('flat_lines', Arr('float', finite=True)),
                      ('offsets', Arr('int', 'uint32')), ('inds', Arr('int', 'int64'))],
                     returns=Arr('bool'), requires=req,
                     ensures=lambda c, r: [('length', r.n == c.inds.n),
                                           ('cells', forall('int', lambda k: Implies(And(k >= 0, k < c.inds.n), cell_ok(c, r, k))))],
                     loops={0: Loop(var='i', invariant=inv_i, keep_using={'done': ['!strict', 'inv:done', 'inv:this', 'inv:range', 'exit:'],
                                                                        'todo': ['inv:todo', 'inv:range']}),
                            1: Loop(var='k', invariant=inv_k),
                            2: Loop(var='m', invariant=inv_m, hints=seg_steps,
                                    keep_using={'no-earlier-segment': ['!strict', 'inv:no-earlier-segment', 'inv:range', 'hint:this-segment-misses']})},
                     branches={1: {'orelse': no_vertex_steps}},
                     props=P, merge=False, solver_opts={'arith.nl': False},
                     # not proved (yet): preservation of `this` across one line (needs, per path, the link between numpy's
                     # strided min()/max()/any() expressions and the cell-position form of the spec); covered by the
                     # run-time checked stand-in.  The other three former stand-ins are now discharged (ghost steps).
                     stand_in=('inv-keep:this',)))
