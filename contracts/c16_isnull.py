"""C16 - validity bitmap -> isnull bytemap (geometry/base.py::_perform_extract_isnull_bytemap): honours the
array offset.  dst[dst_offset + i] == (bit (bitmap_offset + i) of the little-endian bitmap is 0)."""
from pyvc.contracts import Arr, Contract, Int, Loop
from pyvc.values import SInt, And, Implies, Ite, forall

P = ('C16', 'C17')
BASE = 'spatialpandas/geometry/base.py'


def bit_is_zero(byte, k):
    """bit k (0..7) of a byte value is 0"""
    r = (byte // 128) % 2 == 0
    for j in range(6, -1, -1):
        r = Ite(k == j, (byte // (1 << j)) % 2 == 0, r)
    return r


def register(reg):
    def req(c):
        return [('lengths', And(c.bitmap_length >= 0, c.bitmap_offset >= 0, c.dst_offset >= 0,
                                c.dst_offset + c.bitmap_length <= c.dst.n,
                                c.bitmap_offset + c.bitmap_length <= 8 * c.bitmap.n)),
                ('unit-stride', And(c.bitmap.stride == 1, c.dst.stride == 1))]

    def cell_ok(c, dst, i):
        idx = c.bitmap_offset + i
        return dst[c.dst_offset + i] == bit_is_zero(c.bitmap[idx // 8], idx % 8)

    reg.add(Contract(BASE + '::_perform_extract_isnull_bytemap',
                     [('bitmap', Arr('int', 'uint8')), ('bitmap_length', Int()), ('bitmap_offset', Int()),
                      ('dst_offset', Int()), ('dst', Arr('bool'))],
                     requires=req, modifies=('dst',),
                     ensures=lambda c, r: [
                         ('cells', forall('int', lambda i: Implies(And(i >= 0, i < c.bitmap_length), cell_ok(c, c.post.dst, i)))),
                         ('rest-unchanged', forall('int', lambda j: Implies(
                             And(j >= 0, j < c.dst.n, Ite(j < c.dst_offset, True, j >= c.dst_offset + c.bitmap_length)),
                             c.post.dst[j] == c.dst[j])))],
                     loops={0: Loop(var='i', invariant=lambda c: [
                         ('range', And(c.i >= 0, c.i <= c.a.bitmap_length)),
                         ('done', forall('int', lambda i: Implies(And(i >= 0, i < c.i), cell_ok(c.a, c.view(c.a.dst), i)))),
                         ('rest-unchanged', forall('int', lambda j: Implies(
                             And(j >= 0, j < c.a.dst.n, Ite(j < c.a.dst_offset, True, j >= c.a.dst_offset + c.i)),
                             c.view(c.a.dst)[j] == c.a.dst[j])))])},
                     props=P))
