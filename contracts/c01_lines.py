"""C01 - line and multiline box drivers of intersection.py under contract:
_perform_line_intersect_bounds, lines_intersect_bounds, multilines_intersect_bounds.

Ground truth for one segment:  SEG_MEETS(a0, a1, box)  <=>  exists s in [0,1]. a0 + s (a1 - a0) in the closed box.
The contracts use its quantifier-free form seg_qf (an end point in the box, or the segment crosses the carrier
line of a box edge within that edge); lemmas `seg_qf_exact_*` prove the two forms equivalent for every box of
positive width and height.  A line's point set is the union of its vertices and segments:

    LINE_MEETS(v, start, stop, box) <=> some vertex in [start, stop) lies in the box, or some segment meets it.

What is proved of the real code, for all inputs: the early reject (bounding box disjoint) and the early accept
(bounding box inside the box's x- or y-slab: discrete intermediate-value argument over the vertices, lemmas
`first_upcrossing` / `first_downcrossing`) agree with LINE_MEETS, the vertex loop and the four-edge segment loop
(through the proved contract of segments_intersect) decide it otherwise, and the drivers write exactly
LINE_MEETS of element k into result[k] (any offsets, empty lines, reversed box corners, degenerate boxes -> all
False)."""
import z3

from pyvc.contracts import Arr, Bool, Contract, Flt, Int, Lemma, Loop, RecSpec
from pyvc.lemmas import instance, instance_forall
from pyvc.values import (FIN, SBool, SFloat, SInt, And, Implies, Ite, Not, Or, exists, forall)
from .c01_box import fmax, fmin, meet_at, si_candidates
from .c13_bounds import AT, AV, MAXV, MINV, WITMAX, WITMIN

P = ('C01',)
INT = 'spatialpandas/geometry/_algorithms/intersection.py'
Z = SFloat.const(0.0)
ONE = SFloat.const(1.0)
R = z3.RealSort()
I = z3.IntSort()


def rl(x):
    return x if isinstance(x, SFloat) else SFloat(FIN, x)


def in_box(px, py, bx):
    x0, y0, x1, y1 = bx
    return And(x0 <= px, px <= x1, y0 <= py, py <= y1)


def sdiv(n, d):
    return Ite(d != Z, n / Ite(d != Z, d, ONE), Z)


def crossings(a, bx):
    """(s, condition) for the four box edges: the segment reaches the edge's carrier line at parameter s in [0,1]
    and is within the edge there"""
    ax0, ay0, ax1, ay1 = a
    x0, y0, x1, y1 = bx
    dx, dy = ax1 - ax0, ay1 - ay0
    out = []
    for lvl in (y1, y0):
        s = sdiv(lvl - ay0, dy)
        px = ax0 + s * dx
        out.append((s, And(dy != Z, s >= Z, s <= ONE, x0 <= px, px <= x1)))
    for lvl in (x0, x1):
        s = sdiv(lvl - ax0, dx)
        py = ay0 + s * dy
        out.append((s, And(dx != Z, s >= Z, s <= ONE, y0 <= py, py <= y1)))
    return out


def seg_qf_body(a, bx):
    ax0, ay0, ax1, ay1 = a
    return Or(in_box(ax0, ay0, bx), in_box(ax1, ay1, bx), *[c for _, c in crossings(a, bx)])


# the same as a defined function, opaque under quantifiers (its nonlinear body is unfolded at ground applications only)
SEGQ = RecSpec('SEG_MEETS_BOX', [R] * 8, 'bool', lambda self, *a: seg_qf_body(a[:4], a[4:]))


def seg_qf(a, bx):
    return SEGQ(*[rl(t) for t in a], *[rl(t) for t in bx])


def seg_param(a, bx, s):
    ax0, ay0, ax1, ay1 = a
    return And(s >= Z, s <= ONE, in_box(ax0 + s * (ax1 - ax0), ay0 + s * (ay1 - ay0), bx))


def _line_meets_body(self, A, start, stop, x0, y0, x1, y1):
    bx = (x0, y0, x1, y1)

    def cell(k):
        return SFloat(FIN, z3.Select(A, k.z()))
    vert = exists('int', lambda t: And(t >= start, t + 1 < stop, (t - start) % 2 == 0, in_box(cell(t), cell(t + 1), bx)))
    seg = exists('int', lambda t: And(t >= start, t + 3 < stop, (t - start) % 2 == 0,
                                      seg_qf((cell(t), cell(t + 1), cell(t + 2), cell(t + 3)), bx)))
    return Or(vert, seg)


# defined (non-recursive) spec function over the raw coordinate array: cells [start, stop) hold x0 y0 x1 y1 ...
LINE_MEETS = RecSpec('LINE_MEETS', [AV, 'int', 'int', R, R, R, R], 'bool', _line_meets_body)


def line_meets(v, start, stop, bx):
    """LINE_MEETS of the cells [start, stop) of view v (logical positions)"""
    return LINE_MEETS(v.A, v.off + start, v.off + stop, *[rl(b).val for b in bx])


def _mline_body(self, A, voff, O, a, b, x0, y0, x1, y1):
    def off(k):
        return voff + SInt(z3.Select(O, k.z()))
    return exists('int', lambda k: And(k >= a, k < b, LINE_MEETS(A, off(k), off(k + 1), x0, y0, x1, y1)))


AO = z3.ArraySort(z3.IntSort(), z3.IntSort())
# a multiline: some line k in [a, b) (positions in the raw line-offsets array O, whose values are cell positions
# relative to raw position voff of the coordinate array)
MLINE_MEETS = RecSpec('MLINE_MEETS', [AV, 'int', AO, 'int', 'int', R, R, R, R], 'bool', _mline_body)


def mline_meets(v, o1, a, b, bx):
    """lines a..b-1 (logical positions in the line-offsets view o1) of coordinate view v"""
    return MLINE_MEETS(v.A, v.off, o1.A, o1.off + a, o1.off + b, *[rl(t).val for t in bx])


def bounds_enclose_steps(reg, A, T, lo, hi):
    """every coordinate of the cells [lo, hi) lies between the spec minimum and maximum of its axis"""
    out = []
    for ax, nm in ((0, 'x'), (1, 'y')):
        for lname in ('MINV_lower_bound', 'MAXV_upper_bound'):
            out.append((f'{lname}-{nm}', instance_forall(
                reg, lname, 'int', lambda k, ax=ax: dict(A=A, T=T, lo=lo + ax, hi=hi + ax, k=k),
                patterns=lambda k: [z3.Select(A, k.z())])))
    return out


def reject_steps(reg, A, T, lo, hi, bx):
    """the bounding box of the cells [lo, hi) is disjoint from the box: no vertex in it, no segment meets it"""
    x0, y0, x1, y1 = bx

    def cell(k):
        return SFloat(FIN, z3.Select(A, k.z()))
    out = [('beyond-one-side-misses', instance_forall(
        reg, 'beyond_one_side_misses', 'int',
        lambda k: dict(ax0=cell(k), ay0=cell(k + 1), ax1=cell(k + 2), ay1=cell(k + 3), x0=x0, y0=y0, x1=x1, y1=y1),
        patterns=lambda k: [z3.Select(A, (k + 3).z())]))]
    return out + bounds_enclose_steps(reg, A, T, lo, hi)


def accept_steps(reg, A, T, lo, hi, bx, tag=''):
    """early accept for the vertex run [lo, hi): the coordinates of one axis (`inn`) all lie in the box's slab, those
    of the other (`cr`) reach from below the slab's upper end to above its lower end; discrete intermediate value
    argument.  Concludes  slab => (a vertex in the box or a segment meeting it)."""
    x0, y0, x1, y1 = bx
    out = reject_steps(reg, A, T, lo, hi, bx)

    def cell(k):
        return SFloat(FIN, z3.Select(A, k.z()))
    mn = [MINV(A, T, lo, hi), MINV(A, T, lo + 1, hi + 1)]
    mx = [MAXV(A, T, lo, hi), MAXV(A, T, lo + 1, hi + 1)]
    wmn = [WITMIN(A, T, lo, hi), WITMIN(A, T, lo + 1, hi + 1)]
    wmx = [WITMAX(A, T, lo, hi), WITMAX(A, T, lo + 1, hi + 1)]
    for ax, nm in ((0, 'x'), (1, 'y')):
        for lname in ('MINV_attained', 'MAXV_attained'):
            out.append((f'{lname}-{nm}', instance(reg, lname, A=A, T=T, lo=lo + ax, hi=hi + ax)))
    vert = exists('int', lambda t: And(t >= lo, t + 1 < hi, (t - lo) % 2 == 0, in_box(cell(t), cell(t + 1), bx)))
    seg = exists('int', lambda t: And(t >= lo, t + 3 < hi, (t - lo) % 2 == 0,
                                      seg_qf((cell(t), cell(t + 1), cell(t + 2), cell(t + 3)), bx)))
    for nm, cr, lvl_lo, lvl_hi, in_lo, in_hi in (('x-slab', 1, y0, y1, x0, x1), ('y-slab', 0, x0, x1, y0, y1)):
        inn = 1 - cr
        slab = And(mn[inn] >= in_lo, mx[inn] <= in_hi, mn[cr] <= lvl_hi, mx[cr] >= lvl_lo)
        p, q = wmn[cr], wmx[cr]
        out.append((f'{nm}-up', instance(reg, 'first_upcrossing', A=A, p=p, q=q, lvl=lvl_lo)))
        out.append((f'{nm}-down', instance(reg, 'first_downcrossing', A=A, p=q, q=p, lvl=lvl_lo)))
        # (1) an adjacent pair across the slab's lower end, the other axis inside: that segment meets the box
        out.append((f'{nm}-crossing-segment-meets', instance_forall(
            reg, 'x_slab_crossing_meets' if cr == 1 else 'y_slab_crossing_meets', 'int',
            lambda k, cr=cr: dict(ax0=cell(k - cr), ay0=cell(k - cr + 1), ax1=cell(k - cr + 2), ay1=cell(k - cr + 3),
                                  x0=x0, y0=y0, x1=x1, y1=y1),
            patterns=lambda k: [z3.Select(A, (k + 2).z())])))
        # (2) under the slab condition: a vertex in the box, or an adjacent pair of vertices across the slab's lower end
        def pair(k, cr=cr, lvl_lo=lvl_lo):
            return And(k >= lo + cr, k + 2 < hi + cr, (k - lo - cr) % 2 == 0,
                       Or(And(cell(k) < lvl_lo, cell(k + 2) >= lvl_lo), And(cell(k) >= lvl_lo, cell(k + 2) < lvl_lo)))
        some_pair = exists('int', pair)
        axn = 'xy'[cr]
        base = ['req:', f'lemma:MINV_attained-{axn}', f'lemma:MAXV_attained-{axn}', 'lemma:MINV_lower_bound', 'lemma:MAXV_upper_bound']
        low_in = mn[cr] >= lvl_lo          # the lowest vertex is not below the slab: it is in the box
        tw = p - cr                         # cell position of the x of the lowest vertex (explicit witness)
        out.append((f'{tag}{nm}-lowest-vertex', Implies(And(slab, low_in), And(
            tw >= lo, tw + 1 < hi, (tw - lo) % 2 == 0, in_box(cell(tw), cell(tw + 1), bx))), base))
        out.append((f'{tag}{nm}-lowest-vertex-in-box', Implies(And(slab, low_in), vert), [f'hint:{tag}{nm}-lowest-vertex']))
        out.append((f'{tag}{nm}-upward-pair', Implies(And(slab, Not(low_in), p < q), some_pair), base + [f'lemma:{nm}-up']))
        out.append((f'{tag}{nm}-downward-pair', Implies(And(slab, Not(low_in), q < p), some_pair), base + [f'lemma:{nm}-down']))
        out.append((f'{tag}{nm}-extremes-differ', Implies(And(slab, Not(low_in)), p != q), base))
        out.append((f'{tag}{nm}-vertex-or-crossing-pair', Implies(slab, Or(vert, some_pair)),
                    [f'hint:{tag}{nm}-lowest-vertex-in-box', f'hint:{tag}{nm}-upward-pair', f'hint:{tag}{nm}-downward-pair',
                     f'hint:{tag}{nm}-extremes-differ']))
        # (3) such a pair is a segment meeting the box (its other coordinate lies inside the slab)
        out.append((f'{tag}{nm}-crossing-pair-meets', Implies(And(slab, some_pair), seg),
                    ['req:', f'lemma:{nm}-crossing-segment-meets', 'lemma:MINV_lower_bound', 'lemma:MAXV_upper_bound']))
        out.append((f'{tag}{nm}-accept-is-right', Implies(slab, Or(vert, seg)),
                    [f'hint:{tag}{nm}-vertex-or-crossing-pair', f'hint:{tag}{nm}-crossing-pair-meets']))
    return out


def register(reg):
    F = Flt(finite=True)
    U32 = Arr('int', 'uint32')
    names8 = ['ax0', 'ay0', 'ax1', 'ay1', 'x0', 'y0', 'x1', 'y1']

    def a_of(n):
        return (n.ax0, n.ay0, n.ax1, n.ay1)

    def b_of(n):
        return (n.x0, n.y0, n.x1, n.y1)

    # ------------------------------------------------------------ seg_qf is exactly the parametric definition
    reg.add_lemma(Lemma('seg_qf_exact_complete', [(x, 'real') for x in names8 + ['s']],
                        requires=lambda n: [And(n.x0 < n.x1, n.y0 < n.y1), seg_param(a_of(n), b_of(n), n.s)],
                        ensures=lambda n: [('qf', seg_qf_body(a_of(n), b_of(n)))], props=P))

    def wit_clauses(n):
        a, bx = a_of(n), b_of(n)
        cands = [Z, ONE] + [s for s, _ in crossings(a, bx)]
        return Or(*[seg_param(a, bx, s) for s in cands])
    reg.add_lemma(Lemma('seg_qf_exact_sound', [(x, 'real') for x in names8],
                        requires=lambda n: [And(n.x0 < n.x1, n.y0 < n.y1), seg_qf_body(a_of(n), b_of(n))],
                        ensures=lambda n: [('witness-s', wit_clauses(n))], props=P))

    # a segment with one coordinate inside the box's slab whose other coordinate passes the slab's lower end
    def crosses(u0, u1, lvl):
        return Or(And(u0 < lvl, u1 >= lvl), And(u0 >= lvl, u1 < lvl))
    reg.add_lemma(Lemma('x_slab_crossing_meets', [(x, 'real') for x in names8],
                        requires=lambda n: [And(n.x0 < n.x1, n.y0 < n.y1, n.x0 <= n.ax0, n.ax0 <= n.x1, n.x0 <= n.ax1, n.ax1 <= n.x1,
                                                crosses(n.ay0, n.ay1, n.y0))],
                        ensures=lambda n: [('meets', seg_qf(a_of(n), b_of(n)))], props=P))
    reg.add_lemma(Lemma('y_slab_crossing_meets', [(x, 'real') for x in names8],
                        requires=lambda n: [And(n.x0 < n.x1, n.y0 < n.y1, n.y0 <= n.ay0, n.ay0 <= n.y1, n.y0 <= n.ay1, n.ay1 <= n.y1,
                                                crosses(n.ax0, n.ax1, n.x0))],
                        ensures=lambda n: [('meets', seg_qf(a_of(n), b_of(n)))], props=P))

    # a segment whose end points are both beyond the same side of the box misses it
    reg.add_lemma(Lemma('beyond_one_side_misses', [(x, 'real') for x in names8],
                        requires=lambda n: [And(n.x0 < n.x1, n.y0 < n.y1,
                                                Or(And(n.ax0 > n.x1, n.ax1 > n.x1), And(n.ax0 < n.x0, n.ax1 < n.x0),
                                                   And(n.ay0 > n.y1, n.ay1 > n.y1), And(n.ay0 < n.y0, n.ay1 < n.y0)))],
                        ensures=lambda n: [('misses', Not(seg_qf(a_of(n), b_of(n))))], props=P))

    # ------------------------------------------------------------ discrete intermediate value over every other cell
    def cellA(A, k):
        return SFloat(FIN, z3.Select(A, k.z()))

    def mk_crossing(name, first, then):
        def req(n):
            return [And(n.p < n.q, (n.q - n.p) % 2 == 0, first(cellA(n.A, n.p), n.lvl), then(cellA(n.A, n.q), n.lvl))]

        def ens(n):
            return [('adjacent-pair', exists('int', lambda j: And(
                j >= n.p, j < n.q, (j - n.p) % 2 == 0, first(cellA(n.A, j), n.lvl), then(cellA(n.A, j + 2), n.lvl))))]

        def proof(n, use):
            return [use(name, A=n.A, p=n.p + 2, q=n.q, lvl=n.lvl)]
        reg.add_lemma(Lemma(name, [('A', AV), ('p', 'int'), ('q', 'int'), ('lvl', 'real')], requires=req, ensures=ens,
                            proof=proof, decreases=lambda n: n.q - n.p, props=P))

    mk_crossing('first_upcrossing', lambda x, l: x < l, lambda x, l: x >= l)
    mk_crossing('first_downcrossing', lambda x, l: x >= l, lambda x, l: x < l)

    # ------------------------------------------------------------ _perform_line_intersect_bounds
    def pl_params():
        return [('i', Int()), ('x0', F), ('y0', F), ('x1', F), ('y1', F), ('flat_values', Arr('float', finite=True)),
                ('start_offsets', U32), ('stop_offsets', U32), ('result', Arr('bool'))]

    def pl_requires(c):
        v = c.flat_values
        s, e = c.start_offsets[c.i], c.stop_offsets[c.i]
        return [('index', And(c.i >= 0, c.i < c.start_offsets.n, c.i < c.stop_offsets.n, c.i < c.result.n)),
                ('box-ordered-positive', And(c.x0 < c.x1, c.y0 < c.y1)),
                ('unit-stride', v.stride == 1),
                ('range', And(s >= 0, s <= e, e <= v.n, (e - s) % 2 == 0))]

    def pl_box(c):
        return (c.x0, c.y0, c.x1, c.y1)

    def pl_ensures(c, r):
        s, e = c.start_offsets[c.i], c.stop_offsets[c.i]
        meets = line_meets(c.flat_values, s, e, pl_box(c))
        return [('cell-i', c.post.result[c.i] == Or(c.result[c.i], meets)),
                ('other-cells-kept', forall('int', lambda k: Implies(And(k >= 0, k < c.result.n, k != c.i),
                                                                     c.post.result[k] == c.result[k])))]

    def vertex_out(c, t):
        v = c.flat_values
        return Not(in_box(v[t], v[t + 1], pl_box(c)))

    def seg_of(v, t):
        return (v[t], v[t + 1], v[t + 2], v[t + 3])

    def pl_loop_vertex(c):
        a = c.a
        return [('range', And(c.start == a.start_offsets[a.i], c.stop == a.stop_offsets[a.i], c.j >= c.start,
                              (c.j - c.start) % 2 == 0, Not(c.vert_in_rect))),
                ('none-so-far', forall('int', lambda t: Implies(And(t >= c.start, t < c.j, (t - c.start) % 2 == 0),
                                                                vertex_out(a, t))))]

    def pl_loop_segment(c):
        a = c.a
        v = a.flat_values
        return [('range', And(c.start == a.start_offsets[a.i], c.stop == a.stop_offsets[a.i], c.j >= c.start,
                              (c.j - c.start) % 2 == 0, Not(c.segment_intersects), Not(c.vert_in_rect))),
                ('no-vertex-in-box', forall('int', lambda t: Implies(
                    And(t >= c.start, t + 1 < c.stop, (t - c.start) % 2 == 0), vertex_out(a, t)))),
                ('none-so-far', forall('int', lambda t: Implies(
                    And(t >= c.start, t < c.j, t + 3 < c.stop, (t - c.start) % 2 == 0), Not(seg_qf(seg_of(v, t), pl_box(a))))))]

    def pl_segment_misses(c):
        # none of the four edge tests fired: by their quantifier-free completeness clause no crossing parameter exists
        a = c.a
        return [('this-segment-misses-the-box', Not(seg_qf(seg_of(a.flat_values, c.j), pl_box(a))), ['inv:no-vertex-in-box', 'inv:range'])]

    def pl_break_segment(c):
        # the edge test that fired gives a crossing parameter: the segment meets the box
        a = c.a
        x0, y0, x1, y1 = pl_box(a)
        seg = seg_of(a.flat_values, c.j)
        out = []
        # the point the fired edge test found (one of its witness parameters) lies on a box edge, hence in the box
        for nm, edge in (('top', (x0, y1, x1, y1)), ('bottom', (x0, y0, x1, y0)), ('left', (x0, y0, x0, y1)), ('right', (x1, y0, x1, y1))):
            ch, cv = si_candidates(*seg, *edge)
            for k, (s_, t_) in enumerate(ch if nm in ('top', 'bottom') else cv):
                out.append((f'{nm}-{k}', instance(reg, 'seg_qf_exact_complete', ax0=seg[0], ay0=seg[1], ax1=seg[2], ay1=seg[3],
                                                  x0=x0, y0=y0, x1=x1, y1=y1, s=s_)))
        out.append(('this-segment-meets-the-box', seg_qf(seg, pl_box(a))))
        return out

    def _spec_terms(a):
        v = a.flat_values
        s, e = a.start_offsets[a.i], a.stop_offsets[a.i]
        return v.A, v.T, v.off + s, v.off + e

    def pl_reject(c):
        A, T, lo, hi = _spec_terms(c.a)
        return reject_steps(reg, A, T, lo, hi, pl_box(c.a))

    def pl_accept(c):
        A, T, lo, hi = _spec_terms(c.a)
        return accept_steps(reg, A, T, lo, hi, pl_box(c.a))

    reg.add(Contract(INT + '::_perform_line_intersect_bounds', pl_params(), returns=None,
                     requires=pl_requires, ensures=pl_ensures, modifies=('result',),
                     loops={0: Loop(invariant=pl_loop_vertex, var='j'),
                            1: Loop(invariant=pl_loop_segment, var='j', break_hints=pl_break_segment, hints=pl_segment_misses,
                                    keep_using={'none-so-far': ['inv:', 'hint:this-segment-misses-the-box']})},
                     branches={0: {'then': pl_reject}, 1: {'then': pl_accept}}, props=P, fuel=1))

    # ------------------------------------------------------------ lines_intersect_bounds
    BOXP = [('x0', F), ('y0', F), ('x1', F), ('y1', F)]

    def obox(c):
        return (fmin(c.x0, c.x1), fmin(c.y0, c.y1), fmax(c.x0, c.x1), fmax(c.y0, c.y1))

    def positive(c):
        bx = obox(c)
        return And(bx[0] < bx[2], bx[1] < bx[3])

    def li_requires(c):
        v, n = c.flat_values, c.start_offsets.n
        return [('lengths', And(c.stop_offsets.n >= n, c.result.n >= n)),
                ('unit-stride', v.stride == 1),
                ('ranges', forall('int', lambda k: Implies(And(k >= 0, k < n), And(
                    c.start_offsets[k] >= 0, c.start_offsets[k] <= c.stop_offsets[k], c.stop_offsets[k] <= v.n,
                    (c.stop_offsets[k] - c.start_offsets[k]) % 2 == 0))))]

    def li_cell(c, res, k):
        return res[k] == And(positive(c), line_meets(c.flat_values, c.start_offsets[k], c.stop_offsets[k], obox(c)))

    def li_ensures(c, r):
        n = c.start_offsets.n
        return [('cells', forall('int', lambda k: Implies(And(k >= 0, k < n), li_cell(c, c.post.result, k)))),
                ('rest-false', forall('int', lambda k: Implies(And(k >= n, k < c.result.n), Not(c.post.result[k]))))]

    def li_inv(c):
        a = c.a
        n = a.start_offsets.n
        res = c.view(a.result)
        bx = obox(a)
        return [('range', And(c.i >= 0, c.i <= n, c.n == n, c.x0 == bx[0], c.y0 == bx[1], c.x1 == bx[2], c.y1 == bx[3],
                              positive(a))),
                ('done', forall('int', lambda k: Implies(And(k >= 0, k < c.i), li_cell(a, res, k)))),
                ('todo', forall('int', lambda k: Implies(And(k >= c.i, k < a.result.n), Not(res[k]))))]

    reg.add(Contract(INT + '::lines_intersect_bounds',
                     BOXP + [('flat_values', Arr('float', finite=True)), ('start_offsets', U32), ('stop_offsets', U32),
                             ('result', Arr('bool'))],
                     returns=None, requires=li_requires, ensures=li_ensures, modifies=('result',),
                     loops={0: Loop(invariant=li_inv, var='i')}, props=P, fuel=0))

    # ------------------------------------------------------------ multilines_intersect_bounds
    def ml_requires(c):
        v, o1, n = c.flat_values, c.offsets1, c.start_offsets0.n
        return [('lengths', And(c.stop_offsets0.n >= n, c.result.n >= n)),
                ('unit-stride', And(v.stride == 1, o1.stride == 1)),
                ('element-ranges', forall('int', lambda k: Implies(And(k >= 0, k < n), And(
                    c.start_offsets0[k] >= 0, c.start_offsets0[k] <= c.stop_offsets0[k], c.stop_offsets0[k] < o1.n)))),
                ('line-ranges', forall('int', lambda m: Implies(And(m >= 0, m < o1.n - 1), And(
                    o1[m] >= 0, o1[m] <= o1[m + 1], o1[m + 1] <= v.n, (o1[m + 1] - o1[m]) % 2 == 0))))]

    def ml_cell(c, res, k):
        return res[k] == And(positive(c), mline_meets(c.flat_values, c.offsets1, c.start_offsets0[k], c.stop_offsets0[k], obox(c)))

    def ml_ensures(c, r):
        n = c.start_offsets0.n
        return [('cells', forall('int', lambda k: Implies(And(k >= 0, k < n), ml_cell(c, c.post.result, k)))),
                ('rest-false', forall('int', lambda k: Implies(And(k >= n, k < c.result.n), Not(c.post.result[k]))))]

    def ml_outer(c):
        a = c.a
        n = a.start_offsets0.n
        res = c.view(a.result)
        bx = obox(a)
        return [('range', And(c.i >= 0, c.i <= n, c.n == n, n >= 1, c.x0 == bx[0], c.y0 == bx[1], c.x1 == bx[2], c.y1 == bx[3],
                              positive(a))),
                ('done', forall('int', lambda k: Implies(And(k >= 0, k < c.i), ml_cell(a, res, k)))),
                ('todo', forall('int', lambda k: Implies(And(k >= c.i, k < a.result.n), Not(res[k]))))]

    def ml_inner(c):
        a = c.a
        v, o1 = a.flat_values, a.offsets1
        s0 = a.start_offsets0[c.i]
        er = c.view(c.element_result)
        bx = obox(a)
        return [('lines-range', And(c.i >= 0, c.i < a.start_offsets0.n, c.j >= 0, c.j <= c.num_lines,
                              c.num_lines == a.stop_offsets0[c.i] - s0, c.element_result.n == c.num_lines,
                              c.x0 == bx[0], c.y0 == bx[1], c.x1 == bx[2], c.y1 == bx[3], positive(a))),
                ('lines-done', forall('int', lambda m: Implies(And(m >= 0, m < c.j), er[m] == line_meets(
                    v, o1[s0 + m], o1[s0 + m + 1], bx)))),
                # the same over raw positions q in the line-offsets array (trigger O[q]): the instance for the witness of
                # MLINE_MEETS
                ('lines-done-by-position', forall('int', lambda q: Implies(
                    And(q >= o1.off + s0, q < o1.off + s0 + c.j),
                    er[q - o1.off - s0] == LINE_MEETS(v.A, v.off + SInt(z3.Select(o1.A, q.z())), v.off + SInt(z3.Select(o1.A, (q + 1).z())),
                                                      *[rl(t).val for t in bx])),
                    patterns=lambda q: [z3.Select(o1.A, q.z())])),
                ('lines-todo', forall('int', lambda m: Implies(And(m >= c.j, m < c.num_lines), Not(er[m]))))]

    def ml_hints(c):
        a = c.a
        res = c.view(a.result)
        meets = mline_meets(a.flat_values, a.offsets1, a.start_offsets0[c.i], a.stop_offsets0[c.i], obox(a))
        use = ['inv:lines-range', 'inv:lines-done', 'inv:lines-todo', 'inv:range']
        return [('any-implies-meets', Implies(res[c.i], meets), use),
                ('meets-implies-any', Implies(meets, res[c.i]), ['inv:lines-range', 'inv:lines-done-by-position', 'inv:range']),
                ('this-element', ml_cell(a, res, c.i), ['inv:range', 'hint:any-implies-meets', 'hint:meets-implies-any'])]

    reg.add(Contract(INT + '::multilines_intersect_bounds',
                     BOXP + [('flat_values', Arr('float', finite=True)), ('start_offsets0', U32), ('stop_offsets0', U32),
                             ('offsets1', U32), ('result', Arr('bool'))],
                     returns=None, requires=ml_requires, ensures=ml_ensures, modifies=('result',),
                     loops={0: Loop(invariant=ml_outer, var='i', hints=ml_hints,
                                    keep_using={'done': ['inv:', 'hint:this-element']}),
                            1: Loop(invariant=ml_inner, var='j')}, props=P, fuel=1))
