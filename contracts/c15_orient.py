"""C15 - orient_polygons (orientation.py): ring-wise identity-or-reverse, frame, in-bounds writes."""
import z3

from pyvc.contracts import Arr, Contract, Flt, Int, Lemma, Loop, RecSpec, Tup
from pyvc.values import (FIN, SBool, SFloat, SInt, And, Implies, Ite, Not, Or, exists, forall, to_int)
from .c14_measures import AO, AV, RINGSUM, TS, celli, offsets_ok, ring_area2

P = ('C15',)
ORI = 'spatialpandas/geometry/_algorithms/orientation.py'


def _is_shell_body(self, PO, pooff, pon, r):
    return exists('int', lambda k: And(k >= 0, k < pon - 1, celli(PO, pooff + k) == r))


IS_SHELL = RecSpec('IS_SHELL', [AO, 'int', 'int', 'int'], 'bool', _is_shell_body, quantified=True)


def is_shell(po, r):
    """ring r is the first ring of some polygon"""
    return IS_SHELL(po.A, po.off, po.n, r)


def ring_ccw(v, ro, r):
    """signed-area test the code applies to ring r (twice the area >= 0)"""
    return ring_area2(v.A, v.off + ro[r], v.off + ro[r + 1]) >= SFloat.const(0.0)


def _nf_body(self, A, voff, PO, pooff, pon, RO, rooff, r):
    a2 = ring_area2(A, voff + celli(RO, rooff + r), voff + celli(RO, rooff + r + 1))
    ccw = a2 >= SFloat.const(0.0)
    # a ring of zero area has no orientation and is never flipped
    return And(ccw != IS_SHELL(PO, pooff, pon, r), a2 != SFloat.const(0.0))


NEEDS_FLIP = RecSpec('NEEDS_FLIP', [AV, 'int', AO, 'int', 'int', AO, 'int', 'int'], 'bool', _nf_body, quantified=True)


def needs_flip(v, po, ro, r):
    return NEEDS_FLIP(v.A, v.off, po.A, po.off, po.n, ro.A, ro.off, r)


def mirror(s, e, t):
    d = t - s
    return Ite(d % 2 == 0, e - 2 - d, e - d)


def rings_kept(pre, cur, ro, R, flipped):
    """every ring that is not flipped holds its original cells (prenex, explicit trigger)"""
    return forall(['int', 'int'], lambda r, t: Implies(
        And(r >= 0, r < R, t >= ro[r], t < ro[r + 1], Not(flipped(r))), cur[t] == pre[t]),
        patterns=lambda r, t: [z3.MultiPattern(ro[r].z(), ro[r + 1].z(), cur[t].val)])


def rings_reversed(pre, cur, ro, R, flipped):
    """every flipped ring holds its vertices in reverse order: cell t holds the original cell mirror(t)
    (x of vertex m <-> x of vertex nv-1-m, same for y)"""
    return forall(['int', 'int'], lambda r, t: Implies(
        And(r >= 0, r < R, t >= ro[r], t < ro[r + 1], flipped(r)), cur[t] == pre[mirror(ro[r], ro[r + 1], t)]),
        patterns=lambda r, t: [z3.MultiPattern(ro[r].z(), ro[r + 1].z(), cur[t].val)])


def rings_ok(ro, v):
    return [('ring-offsets-ok', offsets_ok(ro, v))]


def register(reg):
    def req(c):
        v, po, ro = c.values, c.polygon_offsets, c.ring_offsets
        return [('unit-stride', And(v.stride == 1, po.stride == 1, ro.stride == 1)),
                ('at-least-one-offset', And(ro.n >= 1, po.n >= 1))] + rings_ok(ro, v) + [
            # a polygon's first-ring index is a ring index, or the number of rings for trailing polygons
            # without rings (empty / missing elements)
            ('polygon-offsets-index-rings', forall('int', lambda k: Implies(
                And(k >= 0, k < po.n - 1), And(po[k] >= 0, po[k] <= ro.n - 1)))),
        ]

    def ens(c, r):
        v, po, ro = c.values, c.polygon_offsets, c.ring_offsets
        post = c.post.values
        R = ro.n - 1
        return [
            ('rings-kept', rings_kept(v, post, ro, R, lambda k: needs_flip(v, po, ro, k))),
            ('rings-reversed', rings_reversed(v, post, ro, R, lambda k: needs_flip(v, po, ro, k))),
            ('outside-rings-unchanged', forall('int', lambda t: Implies(
                And(t >= 0, t < v.n, Or(t < ro[0], t >= ro[R])), post[t] == v[t]))),
        ]

    def inv_ccw(c):
        v, po, ro = c.a.values, c.a.polygon_offsets, c.a.ring_offsets
        i = c.i
        cur = c.view(c.a.values)
        return [('range', And(i >= 0, i <= c.num_rings, c.num_rings == ro.n - 1, c.is_ccw.n == c.num_rings,
                              c.expected_ccw.n == c.num_rings)),
                ('is-ccw', forall('int', lambda k: Implies(
                    And(k >= 0, k < i), c.is_ccw[k] == Ite(ring_ccw(v, ro, k), SFloat.const(1.0), SFloat.const(0.0))))),
                ('has-area', forall('int', lambda k: Implies(
                    And(k >= 0, k < i), c.has_area[k] == (ring_area2(v.A, v.off + ro[k], v.off + ro[k + 1]) != SFloat.const(0.0))))),
                ('lengths', And(c.has_area.n == c.num_rings)),
                ('expected', forall('int', lambda k: Implies(And(k >= 0, k < c.num_rings),
                                                            c.expected_ccw[k] == is_shell(po, k)))),
                ('values-untouched', forall('int', lambda t: Implies(And(t >= 0, t < v.n), cur[t] == v[t])))]

    def inv_flip(c):
        v, po, ro = c.a.values, c.a.polygon_offsets, c.a.ring_offsets
        i = c.i
        cur = c.view(c.a.values)
        fi = c.flip_inds[0]
        R = ro.n - 1
        nf = fi.n
        rank = fi.meta['rank']
        done = lambda r: And(needs_flip(v, po, ro, r), rank(r) < i)
        mask = c.view(fi.meta['mask'])
        return [
            ('range', And(i >= 0, i <= nf, c.flip_starts.n == nf, c.flip_stops.n == nf)),
            ('mask-is-needs-flip', forall('int', lambda r: Implies(And(r >= 0, r < R), mask[r] == needs_flip(v, po, ro, r)))),
            ('rings-kept', rings_kept(v, cur, ro, R, done)),
            ('rings-reversed', rings_reversed(v, cur, ro, R, done)),
            ('outside-rings-unchanged', forall('int', lambda t: Implies(
                And(t >= 0, t < v.n, Or(t < ro[0], t >= ro[R])), cur[t] == v[t]))),
        ]

    def hints_flip(c):
        v, po, ro = c.a.values, c.a.polygon_offsets, c.a.ring_offsets
        i = c.i
        cur = c.view(c.a.values)
        before = c.iter0.view(c.a.values)
        fi = c.flip_inds[0]
        R = ro.n - 1
        rank = fi.meta['rank']
        rs = fi[i]
        s0, e0 = ro[rs], ro[rs + 1]
        D = ['def:values', 'hint:this-ring-start-stop', 'hint:this-ring-range']
        return [
            ('this-ring-index', And(rs >= 0, rs < R)),
            ('this-ring-needs-flip', needs_flip(v, po, ro, rs)),
            ('this-ring-rank', rank(rs) == i),
            ('this-ring-start-stop', And(c.flip_start == s0, c.flip_stop == e0)),
            ('this-ring-range', And(s0 >= 0, s0 <= e0, e0 <= v.n, (e0 - s0) % 2 == 0)),
            ('other-rings-have-other-ranks', forall('int', lambda r: Implies(
                And(r >= 0, r < R, r != rs, needs_flip(v, po, ro, r)), rank(r) != i))),
            ('frame', forall('int', lambda t: Implies(And(t >= 0, t < v.n, Or(t < s0, t >= e0)), cur[t] == before[t])), D),
            ('x-cells', forall('int', lambda t: Implies(And(t >= s0, t < e0, (t - s0) % 2 == 0),
                                                        cur[t] == before[e0 - 2 - (t - s0)])), D),
            ('y-cells', forall('int', lambda t: Implies(And(t >= s0, t < e0, (t - s0) % 2 == 1),
                                                        cur[t] == before[e0 - (t - s0)])), D),
            ('this-ring-reversed', forall('int', lambda t: Implies(And(t >= s0, t < e0),
                                                                   cur[t] == before[mirror(s0, e0, t)])),
             ['hint:x-cells', 'hint:y-cells']),
            ('this-ring-was-original', forall('int', lambda t: Implies(And(t >= s0, t < e0), before[t] == v[t])),
             ['inv:rings-kept', 'hint:this-ring-index', 'hint:this-ring-rank', 'hint:this-ring-needs-flip']),
            ('other-rings-disjoint', forall('int', lambda r: Implies(
                And(r >= 0, r < R, r != rs), Or(ro[r + 1] <= s0, ro[r] >= e0)),
                patterns=lambda r: [z3.MultiPattern(ro[r].z(), ro[r + 1].z())])),
            # the three facts inv-keep needs, each from a hand-picked set of earlier facts
            ('done-next', forall('int', lambda r: Implies(
                And(r >= 0, r < R), And(needs_flip(v, po, ro, r), rank(r) < i + 1) ==
                Or(r == rs, And(needs_flip(v, po, ro, r), rank(r) < i)))),
             ['hint:this-ring-needs-flip', 'hint:this-ring-rank', 'hint:other-rings-have-other-ranks']),
            ('this-ring-now-reversed', forall('int', lambda t: Implies(
                And(t >= s0, t < e0), cur[t] == v[mirror(s0, e0, t)])),
             ['hint:this-ring-reversed', 'hint:this-ring-was-original']),
            ('other-cells-as-before', forall(['int', 'int'], lambda r, t: Implies(
                And(r >= 0, r < R, r != rs, t >= ro[r], t < ro[r + 1]), cur[t] == before[t]),
                patterns=lambda r, t: [z3.MultiPattern(ro[r].z(), ro[r + 1].z(), cur[t].val)]),
             ['hint:frame', 'hint:other-rings-disjoint', 'req:ring-offsets-ok']),
            ('other-flipped-rings-stay-reversed', forall(['int', 'int'], lambda r, t: Implies(
                And(r >= 0, r < R, r != rs, t >= ro[r], t < ro[r + 1], needs_flip(v, po, ro, r), rank(r) < i),
                cur[t] == v[mirror(ro[r], ro[r + 1], t)]),
                patterns=lambda r, t: [z3.MultiPattern(ro[r].z(), ro[r + 1].z(), cur[t].val)]),
             ['inv:rings-reversed', 'hint:other-cells-as-before']),
            ('other-kept-rings-stay', forall(['int', 'int'], lambda r, t: Implies(
                And(r >= 0, r < R, r != rs, t >= ro[r], t < ro[r + 1], Not(And(needs_flip(v, po, ro, r), rank(r) < i))),
                cur[t] == v[t]),
                patterns=lambda r, t: [z3.MultiPattern(ro[r].z(), ro[r + 1].z(), cur[t].val)]),
             ['inv:rings-kept', 'hint:other-cells-as-before']),
        ]

    reg.add(Contract(ORI + '::orient_polygons',
                     [('values', Arr('float', finite=True)), ('polygon_offsets', Arr('int', 'uint32')),
                      ('ring_offsets', Arr('int', 'uint32'))],
                     requires=req, ensures=ens, modifies=('values',),
                     loops={0: Loop(invariant=inv_ccw, var='i'), 1: Loop(invariant=inv_flip, var='i', hints=hints_flip, keep_using={
                                    'rings-reversed': ['hint:other-flipped-rings-stay-reversed', 'hint:done-next',
                                                       'hint:this-ring-now-reversed', 'hint:this-ring-index'],
                                    'rings-kept': ['hint:other-kept-rings-stay', 'hint:done-next', 'hint:this-ring-index']})},
                     props=P, fuel=2, solver_opts={'arith.nl': False}))

    # triangle_orientation (used by C01; lives in the same file)
    def tri_ens(c, r):
        cross = (c.bx - c.ax) * (c.cy - c.ay) - (c.by - c.ay) * (c.cx - c.ax)
        z = SFloat.const(0.0)
        return [('sign', r == Ite(cross > z, SInt(1), Ite(cross < z, SInt(-1), SInt(0))))]
    reg.add(Contract(ORI + '::triangle_orientation',
                     [(n, Flt(finite=True)) for n in ('ax', 'ay', 'bx', 'by', 'cx', 'cy')],
                     returns=Int(), ensures=tri_ens, props=('C01',)))
