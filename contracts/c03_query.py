"""C03 - the query traversal of the Hilbert R-tree: `_NumbaRtree._maybe_intersects_ranges`
(spatialpandas/spatialindex/rtree.py), for d in {1,2,3}.

The worklist (a python list used as a stack) and the two result lists have symbolic length (pyvc `GList`).
Contract, relative to the *tree invariant* TI that the build establishes (TI is not proved here - the build is
outside the subset; it is evaluated on real built trees by the bounded stand-in `rtree.tree-invariant`):

  TI  the tree is perfect (2*2^D - 1 nodes), and the box of every node encloses every row without NaN among the
      keys [START(node), STOP(node)) of that node (so a NaN node has no such row below it)

  ensures  * every row that meets the query lies in a recorded range            (nothing lost)
           * every NaN-free row of a `covered` range lies inside the query      (covered rows need no test)
           * all recorded ranges are pairwise disjoint                          (no row twice)
"""
import z3

from pyvc.contracts import Arr, Contract, Flt, Int, Lemma, LemmaInstance, Loop, Rec, RecSpec, Tup
from pyvc.lemmas import instance, instance_forall
from pyvc.values import SBool, SInt, And, Implies, Ite, Not, Or, exists, forall, pow2

from .c03_rtree import LEFTMOST, RIGHTMOST, SELF, RT

P = ('C03', 'C04')

DEPTH = RecSpec('DEPTH', ['int'], 'int', lambda self, node: Ite(node <= 0, SInt(0), 1 + self((node - 1) // 2)))
_TREE_D = z3.Function('TREE_D', z3.IntSort(), z3.IntSort())


_AS = z3.ArraySort(z3.IntSort(), z3.IntSort())
# IN_RANGES(a, b, n, r): r lies in one of the half-open ranges [a[i], b[i]), i < n
IN = RecSpec('IN_RANGES', [_AS, _AS, 'int', 'int'], 'bool',
             lambda self, a, b, n, r: And(n > 0, Or(And(SInt(z3.Select(a, (n - 1).z())) <= r, r < SInt(z3.Select(b, (n - 1).z()))),
                                                    self(a, b, n - 1, r))))


def TREE_D(tl):
    return SInt(_TREE_D(tl.z()))


def pow2_def(e):
    return And(Implies(e == 0, pow2(e) == 1), Implies(e > 0, And(pow2(e) == 2 * pow2(e - 1), pow2(e - 1) >= 1)))


def register(reg):
    # ------------------------------------------------------------------ lemma: every node has a height
    def nh_req(n):
        return [And(n.D >= 0, n.L == pow2(n.D), n.L >= 1, n.node >= 0, n.node < 2 * n.L - 1)]

    def nh_ens(n):
        e = n.D - DEPTH(n.node)
        w = pow2(e)
        return [('height-non-negative', e >= 0), ('width-positive', w >= 1),
                ('lower', (n.node + 1) * w >= n.L), ('upper', (n.node + 2) * w <= 2 * n.L)]

    def nh_proof(n, use):
        p = (n.node - 1) // 2
        ep = n.D - DEPTH(p)
        return [pow2_def(n.D), pow2_def(ep), pow2_def(ep - 1), Implies(n.node > 0, DEPTH(n.node) == 1 + DEPTH(p)),
                Implies(n.node > 0, Or(n.node == 2 * p + 1, n.node == 2 * p + 2)),
                Implies(n.node > 0, use('node_height', L=n.L, D=n.D, node=p))]

    reg.add_lemma(Lemma('node_height', [('L', 'int'), ('D', 'int'), ('node', 'int')], requires=nh_req, ensures=nh_ens,
                        proof=nh_proof, decreases=lambda n: n.node, props=P))

    # ------------------------------------------------------------------ lemma: appending a range keeps the old ones
    def fr_ens(n):
        a2, b2 = z3.Store(n.a, n.n.z(), n.s.z()), z3.Store(n.b, n.n.z(), n.e.z())
        return [('same-membership', IN(a2, b2, n.k, n.r) == IN(n.a, n.b, n.k, n.r))]

    reg.add_lemma(Lemma('in_ranges_frame', [('a', _AS), ('b', _AS), ('n', 'int'), ('s', 'int'), ('e', 'int'), ('k', 'int'), ('r', 'int')],
                        requires=lambda n: [And(n.k >= 0, n.k <= n.n)], ensures=fr_ens,
                        proof=lambda n, use: [use('in_ranges_frame', a=n.a, b=n.b, n=n.n, s=n.s, e=n.e, k=n.k - 1, r=n.r)],
                        decreases=lambda n: n.k, props=P))

    # ------------------------------------------------------------------ the traversal
    def mk(n):
        cols = 2 * n
        self_rec = Rec('_NumbaRtree', _bounds=Arr('float', ndim=2, cols=cols), _keys=Arr('int', 'int64'), _page_size=Int(),
                       _bounds_tree=Arr('float', ndim=2, cols=cols))
        return self_rec

    def params(cfg):
        n = cfg['n']
        return [('self', mk(n)), ('query_bounds', Tup(*[Flt() for _ in range(2 * n)]))]

    def geom(c):
        """(tl, L, D, leaf_start, ps, N, TOTAL) of the tree"""
        tl = c.self._bounds_tree.shape[0]
        D = TREE_D(tl)
        L = pow2(D)
        return tl, L, D, L - 1, c.self._page_size, c.self._bounds.shape[0], L * c.self._page_size

    def START(c, node):
        tl, L, D, ls, ps, N, TOTAL = geom(c)
        return (LEFTMOST(node, tl) - ls) * ps

    def STOP(c, node):
        tl, L, D, ls, ps, N, TOTAL = geom(c)
        return (RIGHTMOST(node, tl) - ls + 1) * ps

    def valid(c, r, n):
        return And(*[Not(c.self._bounds[r, d].is_nan()) for d in range(2 * n)])

    def meets(c, r, q, n):
        b = c.self._bounds
        return And(valid(c, r, n), *[And(Not(b[r, d + n] < q[d]), Not(b[r, d] > q[d + n])) for d in range(n)])

    def inside(c, r, q, n):
        b = c.self._bounds
        return And(valid(c, r, n), *[And(Not(b[r, d] < q[d]), Not(b[r, d + n] > q[d + n])) for d in range(n)])

    def encloses(c, node, r, n):
        t, b = c.self._bounds_tree, c.self._bounds
        return And(Not(t[node, 0].is_nan()), *[And(t[node, d] <= b[r, d], b[r, d + n] <= t[node, d + n]) for d in range(n)])

    def requires(c):
        n = c.config['n']
        tl, L, D, ls, ps, N, TOTAL = geom(c)
        q = c.query_bounds
        return [('perfect-tree', And(D >= 0, L >= 1, tl == 2 * L - 1)),
                ('page-size-positive', ps >= 1),
                ('rows-fit-the-leaves', And(N >= 0, N <= TOTAL)),
                ('query-is-not-nan', And(*[Not(x.is_nan()) for x in q])),
                ('node-boxes-enclose-their-rows',
                 forall(['int', 'int'], lambda node, r: Implies(
                     And(node >= 0, node < tl, START(c, node) <= r, r < STOP(c, node), r >= 0, r < N, valid(c, r, n)),
                     encloses(c, node, r, n)),
                     patterns=lambda node, r: [z3.MultiPattern(LEFTMOST(node, tl).z(), c.self._bounds[r, 0].val)]))]

    def in_ranges(G, r):
        return IN(G.cols[0], G.cols[1], G.n, r)

    def ranges_ok(G, pos, name):
        return [(f'{name}-ordered-left-of-frontier',
                 forall('int', lambda i: Implies(And(i >= 0, i < G.n), And(0 <= G[i][0], G[i][0] <= G[i][1], G[i][1] <= pos)),
                        patterns=lambda i: [G[i][0].z()])),
                (f'{name}-sorted', forall(['int', 'int'], lambda i, j: Implies(And(0 <= i, i < j, j < G.n), G[i][1] <= G[j][0]),
                                          patterns=lambda i, j: [z3.MultiPattern(G[i][1].z(), G[j][0].z())]))]

    def cross_disjoint(Cv, Mv):
        return forall(['int', 'int'], lambda i, j: Implies(And(0 <= i, i < Cv.n, 0 <= j, j < Mv.n),
                                                            Or(Cv[i][1] <= Mv[j][0], Mv[j][1] <= Cv[i][0])),
                      patterns=lambda i, j: [z3.MultiPattern(Cv[i][1].z(), Mv[j][0].z())])

    def complete_upto(c, ca, Cv, Mv, pos, n):
        tl, L, D, ls, ps, N, TOTAL = geom(ca)
        q = ca.query_bounds
        return forall('int', lambda r: Implies(And(r >= 0, r < N, r < pos, meets(ca, r, q, n)),
                                               Or(in_ranges(Cv, r), in_ranges(Mv, r))),
                      patterns=lambda r: [ca.self._bounds[r, 0].val])

    def covered_sound(ca, Cv, n):
        tl, L, D, ls, ps, N, TOTAL = geom(ca)
        q = ca.query_bounds
        return forall(['int', 'int'], lambda i, r: Implies(
            And(i >= 0, i < Cv.n, Cv[i][0] <= r, r < Cv[i][1], r >= 0, r < N, valid(ca, r, n)), inside(ca, r, q, n)),
            patterns=lambda i, r: [z3.MultiPattern(Cv[i][0].z(), ca.self._bounds[r, 0].val)])

    def inv(c):
        ca = c.a
        n = c.config['n']
        tl, L, D, ls, ps, N, TOTAL = geom(ca)
        S, Cv, Mv = c.nodes, c.covered_ranges, c.maybe_intersect_ranges
        pos = Ite(S.n > 0, START(ca, S[S.n - 1]), TOTAL)
        out = [('lengths', And(S.n >= 0, Cv.n >= 0, Mv.n >= 0)),
               ('n', c.n == n),
               ('stack-nodes-in-tree', forall('int', lambda k: Implies(And(k >= 0, k < S.n), And(S[k] >= 0, S[k] < tl)),
                                              patterns=lambda k: [S[k].z()])),
               ('stack-tiles-the-rest', And(
                   forall('int', lambda k: Implies(And(k >= 1, k < S.n), STOP(ca, S[k]) == START(ca, S[k - 1])),
                          patterns=lambda k: [S[k].z()]),
                   Implies(S.n > 0, STOP(ca, S[0]) == TOTAL))),
               ('frontier-in-range', And(pos >= 0, pos <= TOTAL))]
        out += ranges_ok(Cv, pos, 'covered') + ranges_ok(Mv, pos, 'maybe')
        out += [('covered-and-maybe-disjoint', cross_disjoint(Cv, Mv)),
                ('nothing-lost-left-of-frontier', complete_upto(c, ca, Cv, Mv, pos, n)),
                ('covered-rows-inside-query', covered_sound(ca, Cv, n))]
        return out

    def node_facts(c):
        """ghost steps once a node has been popped: its height, its key range in closed form"""
        ca = c.a
        tl, L, D, ls, ps, N, TOTAL = geom(ca)
        x = c.next_node
        e = D - DEPTH(x)
        w = pow2(e)
        return [('node-height', instance(reg, 'node_height', L=L, D=D, node=x)),
                ('node-closed-form', instance(reg, 'leaf_range_closed_form', L=L, e=e, node=x)),
                ('pow2-def', LemmaInstance(pow2_def(e), [])),     # the defining equations of pow2 (definitional)
                ('range-of-node', And(START(ca, x) == ((x + 1) * w - L) * ps, STOP(ca, x) == ((x + 2) * w - L) * ps,
                                      STOP(ca, x) - START(ca, x) == w * ps)),
                ('range-non-empty', And(START(ca, x) >= 0, START(ca, x) < STOP(ca, x), STOP(ca, x) <= TOTAL))]

    def root_facts(c):
        """ghost step before the loop: the root spans all leaves"""
        tl, L, D, ls, ps, N, TOTAL = geom(c)
        return [('pow2-def-root', LemmaInstance(pow2_def(D), [])),
                ('root-closed-form', instance(reg, 'leaf_range_closed_form', L=L, e=D, node=SInt(0))),
                ('root-range', And(START(c, SInt(0)) == 0, STOP(c, SInt(0)) == TOTAL))]

    def body_end(c):
        """ghost step at the end of the body: a list that grew in this iteration still holds its old ranges"""
        out = []
        for nm in ('covered_ranges', 'maybe_intersect_ranges'):
            G0, G1 = getattr(c.iter0, nm), getattr(c, nm)
            if G0.cols[0].eq(G1.cols[0]) and G0.cols[1].eq(G1.cols[1]):
                continue
            new = G1[G0.n]
            out.append((f'{nm}-keeps-old-ranges', instance_forall(
                reg, 'in_ranges_frame', ['int'],
                lambda r: dict(a=G0.cols[0], b=G0.cols[1], n=G0.n, s=new[0], e=new[1], k=G0.n, r=r),
                patterns=lambda r: [IN(G1.cols[0], G1.cols[1], G0.n, r).z()])))
        return out

    KEEP = {'nothing-lost-left-of-frontier': ['inv:nothing-lost-left-of-frontier', 'inv:stack-tiles-the-rest', 'inv:lengths',
                                              'inv:frontier-in-range', 'req:node-boxes-enclose-their-rows', 'hint:', 'lemma:'],
            'covered-ordered-left-of-frontier': ['inv:covered-ordered-left-of-frontier', 'inv:stack-tiles-the-rest', 'inv:lengths',
                                                 'inv:frontier-in-range', 'hint:'],
            'maybe-ordered-left-of-frontier': ['inv:maybe-ordered-left-of-frontier', 'inv:stack-tiles-the-rest', 'inv:lengths',
                                               'inv:frontier-in-range', 'hint:'],
            'covered-rows-inside-query': ['inv:covered-rows-inside-query', 'inv:lengths', 'hint:',
                                          ]}

    def inside_facts(c):
        """ghost steps where a node's box lies inside the query: so does every NaN-free row below it, axis by axis"""
        ca = c.a
        n = c.config['n']
        tl, L, D, ls, ps, N, TOTAL = geom(ca)
        x, q, b = c.next_node, ca.query_bounds, ca.self._bounds
        out = []
        for d in range(n):
            out.append((f'rows-of-node-inside-query-axis{d}', forall('int', lambda r: Implies(
                And(START(ca, x) <= r, r < STOP(ca, x), r >= 0, r < N, valid(ca, r, n)),
                And(Not(b[r, d] < q[d]), Not(b[r, d + n] > q[d + n]))), patterns=lambda r: [b[r, 0].val]),
                ['req:node-boxes-enclose-their-rows', 'hint:range-non-empty']))
        out.append(('rows-of-node-inside-query', forall('int', lambda r: Implies(
            And(START(ca, x) <= r, r < STOP(ca, x), r >= 0, r < N, valid(ca, r, n)), inside(ca, r, q, n)),
            patterns=lambda r: [b[r, 0].val]), ['hint:rows-of-node-inside-query-axis']))
        return out

    def descend_facts(c):
        ca = c.a
        tl, L, D, ls, ps, N, TOTAL = geom(ca)
        x = c.next_node
        e = D - DEPTH(x)
        return [('not-a-leaf', e >= 1),
                ('children-tile', instance(reg, 'children_tile_parent', L=L, e=e, node=x)),
                ('children-in-tree', 2 * x + 2 < tl),
                ('children-ranges', And(STOP(ca, 2 * x + 1) == START(ca, 2 * x + 2), START(ca, 2 * x + 1) == START(ca, x),
                                        STOP(ca, 2 * x + 2) == STOP(ca, x)))]

    def ensures(c, r):
        n = c.config['n']
        Cv, Mv = r[0], r[1]
        tl, L, D, ls, ps, N, TOTAL = geom(c)
        return (ranges_ok(Cv, TOTAL, 'covered') + ranges_ok(Mv, TOTAL, 'maybe') +
                [('covered-and-maybe-disjoint', cross_disjoint(Cv, Mv)),
                 ('nothing-lost', complete_upto(c, c, Cv, Mv, TOTAL, n)),
                 ('covered-rows-inside-query', covered_sound(c, Cv, n))])

    from pyvc.contracts import GListOf
    reg.add(Contract(RT + '::_NumbaRtree._maybe_intersects_ranges', params, returns=Tup(GListOf(2), GListOf(2)),
                     requires=requires, ensures=ensures,
                     configs=[{'n': 1}, {'n': 2}, {'n': 3}],
                     glists={'nodes': None, 'covered_ranges': 2, 'maybe_intersect_ranges': 2},
                     loops={0: Loop(invariant=inv, hints=body_end, keep_using=KEEP)},
                     branches={0: {'orelse': root_facts}, 1: {'then': node_facts, 'orelse': node_facts}, 5: {'then': inside_facts}, 6: {'orelse': descend_facts}},
                     merge=False, props=P, fuel=1, flags=('skolemize-goal',)))

    # ------------------------------------------------------------------ _valid_rows
    def vr_params(cfg):
        return [('self', mk(cfg['n'])), ('start', Int()), ('stop', Int())]

    def vr_requires(c):
        N = c.self._bounds.shape[0]
        return [('range', And(c.start >= 0, c.start <= c.stop))]

    def vr_ensures(c, r):
        n = c.config['n']
        N = c.self._bounds.shape[0]
        hi = Ite(c.stop < N, c.stop, N)
        ln = Ite(hi > c.start, hi - c.start, SInt(0))
        return [('one-flag-per-row-of-the-window', r.shape[0] == ln),
                ('flag-k-iff-row-start+k-has-no-nan',
                 forall('int', lambda k: Implies(And(k >= 0, k < ln), r[k] == valid(c, c.start + k, n)),
                        patterns=lambda k: [r[k].z()]))]

    register_assembly(reg, mk, requires, meets)
    reg.add(Contract(RT + '::_NumbaRtree._valid_rows', vr_params, returns=Arr('bool', 'bool'), requires=vr_requires,
                     ensures=vr_ensures, configs=[{'n': 1}, {'n': 2}, {'n': 3}], props=P, fuel=1))



# ---------------------------------------------------------------------------------------------------------------
# _NumbaRtree.intersects: the assembly of row ids.  What is proved: every write into the result buffer is in bounds
# (numba does not check), the leaf-level mask is exact (a row of an overlapping page is kept iff it has no NaN and
# meets the query), the result is a prefix of the buffer.  NOT proved (bounded stand-in): that the ids written are
# exactly the keys of the selected rows, each once - the compaction of keys through boolean masks.
SUMLEN = RecSpec('SUMLEN', [_AS, _AS, 'int'], 'int',
                 lambda self, a, b, k: Ite(k <= 0, SInt(0), self(a, b, k - 1) + SInt(z3.Select(b, (k - 1).z())) - SInt(z3.Select(a, (k - 1).z()))))


def register_assembly(reg, mk, requires_ti, meets):
    from pyvc.contracts import GListOf

    def params(cfg):
        n = cfg['n']
        return [('self', mk(n)), ('query_bounds', Tup(*[Flt() for _ in range(2 * n)]))]

    def requires(c):
        N = c.self._bounds.shape[0]
        K = c.self._keys
        return requires_ti(c) + [
            ('one-key-per-row', K.shape[0] == N),
            ('keys-are-row-ids', forall('int', lambda i: Implies(And(i >= 0, i < N), And(K[i] >= 0, K[i] < 2 ** 32)),
                                        patterns=lambda i: [K[i].z()]))]

    def total(Cv, Mv, kc, km):
        return SUMLEN(Cv.cols[0], Cv.cols[1], kc) + SUMLEN(Mv.cols[0], Mv.cols[1], km)

    def nonneg(G):
        return forall('int', lambda i: Implies(And(i >= 0, i < G.n), And(0 <= G[i][0], G[i][0] <= G[i][1])),
                      patterns=lambda i: [G[i][0].z()])

    def mono_ens(n):
        return [('monotone', SUMLEN(n.a, n.b, n.j) <= SUMLEN(n.a, n.b, n.k)), ('nonneg', SUMLEN(n.a, n.b, n.k) >= 0)]

    def mono_req(n):
        return [And(n.j >= 0, n.j <= n.k),
                forall('int', lambda i: Implies(And(i >= 0, i < n.k), SInt(z3.Select(n.a, i.z())) <= SInt(z3.Select(n.b, i.z()))),
                       patterns=lambda i: [z3.Select(n.a, i.z())])]

    reg.add_lemma(Lemma('sumlen_monotone', [('a', _AS), ('b', _AS), ('j', 'int'), ('k', 'int')], requires=mono_req, ensures=mono_ens,
                        proof=lambda n, use: [use('sumlen_monotone', a=n.a, b=n.b, j=Ite(n.j < n.k, n.j, n.k - 1), k=n.k - 1)],
                        decreases=lambda n: n.k, props=P, fuel=2))

    def prefix_facts(c):
        """ghost steps before the first loop: prefix sums of the range lengths never exceed the total"""
        out = []
        for nm in ('covered_ranges', 'maybe_intersect_ranges'):
            G = getattr(c, nm)
            out.append((f'{nm}-non-negative', nonneg(G)))
            out.append((f'{nm}-prefix-sums', instance_forall(
                reg, 'sumlen_monotone', ['int'], lambda j, G=G: dict(a=G.cols[0], b=G.cols[1], j=j, k=G.n),
                guard=lambda j, G=G: And(j >= 0, j <= G.n), patterns=lambda j, G=G: [SUMLEN(G.cols[0], G.cols[1], j).z()])))
        return out

    def nxt(G, k):
        return Implies(And(k >= 0, k < G.n), SUMLEN(G.cols[0], G.cols[1], k + 1) == SUMLEN(G.cols[0], G.cols[1], k) + G[k][1] - G[k][0])

    def inv_sum_c(c):
        Cv, Mv = c.covered_ranges, c.maybe_intersect_ranges
        return [('k', And(c._k >= 0, c._k <= Cv.n)), ('max-len', c.max_len == total(Cv, Mv, c._k, SInt(0))),
                ('max-len-nonneg', c.max_len >= 0)]

    def inv_sum_m(c):
        Cv, Mv = c.covered_ranges, c.maybe_intersect_ranges
        return [('k', And(c._k >= 0, c._k <= Mv.n)), ('max-len', c.max_len == total(Cv, Mv, Cv.n, c._k)),
                ('max-len-nonneg', c.max_len >= 0)]

    def inv_fill_c(c):
        Cv, Mv = c.covered_ranges, c.maybe_intersect_ranges
        return [('k', And(c._k >= 0, c._k <= Cv.n)), ('buffer', c.result.shape[0] == c.max_len),
                ('max-len', c.max_len == total(Cv, Mv, Cv.n, Mv.n)),
                ('filled-so-far', And(c.result_start >= 0, c.result_start <= total(Cv, Mv, c._k, SInt(0)))),
                ('next-prefix', nxt(Cv, c._k))]

    def inv_fill_m(c):
        Cv, Mv = c.covered_ranges, c.maybe_intersect_ranges
        return [('k', And(c._k >= 0, c._k <= Mv.n)), ('buffer', c.result.shape[0] == c.max_len),
                ('max-len', c.max_len == total(Cv, Mv, Cv.n, Mv.n)),
                ('filled-so-far', And(c.result_start >= 0, c.result_start <= total(Cv, Mv, Cv.n, c._k))),
                ('next-prefix', nxt(Mv, c._k))]

    def leaf_mask(c):
        n = c.config['n']
        ca = c.a
        m = c.outside_mask
        return [('leaf-mask-is-exact', forall('int', lambda k: Implies(And(k >= 0, k < m.shape[0]),
                                                                      m[k] == Not(meets(ca, c.start + k, ca.query_bounds, n))),
                                              patterns=lambda k: [m[k].z()]))]

    def ensures(c, r):
        return [('result-is-a-prefix-of-the-buffer', r.shape[0] >= 0)]

    # ---- covers_overlaps: two buffers, two leaf masks
    def sl(G, k):
        return SUMLEN(G.cols[0], G.cols[1], k)

    def co_sum_c(c):
        Cv = c.covered_ranges
        return [('k', And(c._k >= 0, c._k <= Cv.n)), ('max-len0', And(c.max_len0 == sl(Cv, c._k), c.max_len0 >= 0))]

    def co_sum_m(c):
        Cv, Mv = c.covered_ranges, c.maybe_intersect_ranges
        return [('k', And(c._k >= 0, c._k <= Mv.n)), ('max-len0', And(c.max_len0 == sl(Cv, Cv.n), c.max_len0 >= 0)),
                ('max-len1', And(c.max_len1 == sl(Mv, c._k), c.max_len1 >= 0))]

    def co_sizes(c):
        Cv, Mv = c.covered_ranges, c.maybe_intersect_ranges
        return [('buffers', And(c.covers_inds.shape[0] == c.max_len0 + c.max_len1, c.overlaps_inds.shape[0] == c.max_len1)),
                ('totals', And(c.max_len0 == sl(Cv, Cv.n), c.max_len1 == sl(Mv, Mv.n), c.max_len0 >= 0, c.max_len1 >= 0))]

    def co_fill_c(c):
        Cv = c.covered_ranges
        return [('k', And(c._k >= 0, c._k <= Cv.n))] + co_sizes(c) + [
            ('filled-so-far', And(c.covers_start >= 0, c.covers_start <= sl(Cv, c._k))), ('next-prefix', nxt(Cv, c._k))]

    def co_fill_m(c):
        Cv, Mv = c.covered_ranges, c.maybe_intersect_ranges
        return [('k', And(c._k >= 0, c._k <= Mv.n))] + co_sizes(c) + [
            ('filled-so-far', And(c.covers_start >= 0, c.covers_start <= sl(Cv, Cv.n) + sl(Mv, c._k),
                                  c.overlaps_start >= 0, c.overlaps_start <= sl(Mv, c._k))),
            ('next-prefix', nxt(Mv, c._k))]

    def inside_row(ca, r, q, n):
        b = ca.self._bounds
        return And(*[And(b[r, d] >= q[d], b[r, d + n] <= q[d + n]) for d in range(n)])

    def co_masks(c):
        n = c.config['n']
        ca = c.a
        om, cm = c.outside_mask, c.covers_mask
        return [('outside-mask-is-exact', forall('int', lambda k: Implies(And(k >= 0, k < om.shape[0]),
                                                                         om[k] == Not(meets(ca, c.start + k, ca.query_bounds, n))),
                                                 patterns=lambda k: [om[k].z()])),
                ('covers-mask-is-exact', forall('int', lambda k: Implies(And(k >= 0, k < cm.shape[0]),
                                                                        cm[k] == inside_row(ca, c.start + k, ca.query_bounds, n)),
                                                patterns=lambda k: [cm[k].z()]))]

    reg.add(Contract(RT + '::_NumbaRtree.covers_overlaps', params, returns=Tup(Arr('int', 'uint32'), Arr('int', 'uint32')),
                     requires=requires, ensures=lambda c, r: [('results-are-prefixes-of-the-buffers', And(r[0].shape[0] >= 0, r[1].shape[0] >= 0))],
                     configs=[{'n': 1}, {'n': 2}, {'n': 3}],
                     loops={0: Loop(invariant=co_sum_c, entry_hints=prefix_facts), 1: Loop(invariant=co_sum_m),
                            2: Loop(invariant=co_fill_c), 3: Loop(invariant=co_fill_m, hints=co_masks)},
                     props=P, fuel=2, merge=False))

    reg.add(Contract(RT + '::_NumbaRtree.intersects', params, returns=Arr('int', 'uint32'), requires=requires, ensures=ensures,
                     configs=[{'n': 1}, {'n': 2}, {'n': 3}],
                     loops={0: Loop(invariant=inv_sum_c, entry_hints=prefix_facts), 1: Loop(invariant=inv_sum_m), 2: Loop(invariant=inv_fill_c),
                            3: Loop(invariant=inv_fill_m, hints=leaf_mask)},
                     props=P, fuel=2, merge=False))
