"""Thin array methods under contract, relative to the pyarrow representation (glue_rep) and to the kernel
contracts: length / area of Line, MultiLine, Polygon, MultiPolygon arrays (via the proved map kernels) and
intersects_bounds(bounds, inds) of the five list-array kinds.

For intersects_bounds the element-level meaning of the line / polygon drivers is an *uninterpreted*
predicate of the element's coordinate range(s) (the drivers themselves are covered by the run-time checked
contract against the exact oracle, C01): what is proved here is the glue - that row k of the result is the
driver's verdict for exactly the cells of element inds[k] (offset composition for every nesting depth, array
offset, inds handling, box passed through unchanged)."""
import z3

from pyvc.contracts import Arr, Contract, Flt, Fn, Int, NoneSort, Tup
from pyvc.values import (FIN, NONE, SBool, SFloat, SInt, SNone, And, Implies, Ite, Not, Or, exists, forall)
from .glue_rep import ListGeomArray, OUT, offs_of, rep_of, vals_of, well_formed
from .glue_polygon import is_null, validity_ok
from .c14_measures import AO, AV, AT, length_spec, area_spec, measure_spec
from .c01_box import fmin, fmax
from .c01_lines import LINE_MEETS, MLINE_MEETS
from . import c01_polys
from .c01_polys import MPOLY_MEETS, POLY_MEETS

INT = 'spatialpandas/geometry/_algorithms/intersection.py'
R = z3.RealSort()
I = z3.IntSort()

# the drivers are proved against the defined point-set predicates LINE_MEETS / MLINE_MEETS (c01_lines) and
# POLY_MEETS / MPOLY_MEETS (c01_polys); the wrappers are proved against the drivers' contracts


def box_of(c):
    return (fmin(c.x0, c.x1).val, fmin(c.y0, c.y1).val, fmax(c.x0, c.x1).val, fmax(c.y0, c.y1).val)


def register(reg):
    F = Flt(finite=True)
    BOXP = [('x0', F), ('y0', F), ('x1', F), ('y1', F)]
    U32 = Arr('int', 'uint32')

    # ------------------------------------------------------------ assumed driver contracts (stand-in: rtc C01)
    # ------------------------------------------------------------ intersects_bounds wrappers
    def ib_contract(target, cls, levels, verdict):
        cfgs = [{'levels': levels, 'inds': m} for m in ('none', 'given')]

        def params(cfg):
            inds = Arr('int', 'int64') if cfg.get('inds') == 'given' else NoneSort()
            return [('self', ListGeomArray(levels, cls=cls, finite=True)), ('bounds', Tup(F, F, F, F)), ('inds', inds)]

        def req(c):
            rep = rep_of(c.self)
            out = well_formed(c.self, levels)
            if c.config['inds'] == 'given':
                out.append(('inds-in-range', forall('int', lambda k: Implies(
                    And(k >= 0, k < c.inds.n), And(c.inds[k] >= 0, c.inds[k] < rep.length)))))
                out.append(('inds-unit-stride', c.inds.stride == 1))
            if cls in ('PolygonArray', 'MultiPolygonArray'):
                # the polygon drivers' guarantee is for boxes of positive width and height and valid polygons
                b = c.bounds
                out.append(('box-positive', And(b[0] != b[2], b[1] != b[3])))
                offs = offs_of(c.self, levels)
                v = vals_of(c.self)
                valid = c01_polys.HELPERS['valid_polygon_at']
                if cls == 'PolygonArray':
                    o0, o1 = offs
                    out.append(('valid-polygons', forall('int', lambda k: Implies(
                        And(k >= 0, k < rep.length), valid(v, o1, o0[rep.offset + k], o0[rep.offset + k + 1])))))
                else:
                    o0, o1, o2 = offs
                    out.append(('valid-polygons', forall('int', lambda q: Implies(
                        And(q >= 0, q < o1.n - 1), And(o1[q] <= o1[q + 1], o1[q + 1] < o2.n, valid(v, o2, o1[q], o1[q + 1]))))))
            return out

        def ens(c, r):
            rep = rep_of(c.self)
            offs = offs_of(c.self, levels)
            v = vals_of(c.self)
            given = c.config['inds'] == 'given'
            n = c.inds.n if given else rep.length
            b = c.bounds
            bx = (fmin(b[0], b[2]).val, fmin(b[1], b[3]).val, fmax(b[0], b[2]).val, fmax(b[1], b[3]).val)

            def row(k):
                i = c.inds[k] if given else k
                return r[k] == SBool(verdict(c, v, offs, rep.offset + i, bx))
            return [('length', r.n == n), ('row-k-is-the-verdict-for-element-inds-k', forall('int', lambda k: Implies(And(k >= 0, k < n), row(k))))]

        reg.add(Contract(target, params, returns=Arr('bool'), requires=req, ensures=ens, configs=cfgs,
                         props=('C01', 'C16'), fuel=0))

    def positive(bx):
        return z3.And(bx[0] < bx[2], bx[1] < bx[3])

    def v_line(c, v, offs, slot, bx):
        o = offs[0]
        return z3.And(positive(bx), LINE_MEETS.f(v.A, (v.off + o[slot]).z(), (v.off + o[slot + 1]).z(), *bx))

    def v_mline(c, v, offs, slot, bx):
        o0, o1 = offs
        return z3.And(positive(bx), MLINE_MEETS.f(v.A, v.off.z(), o1.A, (o1.off + o0[slot]).z(), (o1.off + o0[slot + 1]).z(), *bx))

    def v_poly(c, v, offs, slot, bx):
        o0, o1 = offs
        return POLY_MEETS.f(v.A, v.off.z(), o1.A, (o1.off + o0[slot]).z(), (o1.off + o0[slot + 1]).z(), *bx)

    def v_mpoly(c, v, offs, slot, bx):
        o0, o1, o2 = offs
        return MPOLY_MEETS.f(v.A, v.off.z(), o2.A, o2.off.z(), o1.A, (o1.off + o0[slot]).z(), (o1.off + o0[slot + 1]).z(), *bx)

    def v_mpoint(c, v, offs, slot, bx):
        # the proved kernel's own spec: some vertex of the element lies in the closed box
        o = offs[0]
        lo_x, lo_y, hi_x, hi_y = [SFloat(FIN, t) for t in bx]
        s0, e0 = o[slot], o[slot + 1]
        return exists('int', lambda t: And(t >= s0, t + 1 < e0, (t - s0) % 2 == 0,
                                           lo_x <= v[t], v[t] <= hi_x, lo_y <= v[t + 1], v[t + 1] <= hi_y)).z()

    G = 'spatialpandas/geometry/'
    ib_contract(G + 'multipoint.py::MultiPointArray.intersects_bounds', 'MultiPointArray', 1, v_mpoint)
    ib_contract(G + 'line.py::LineArray.intersects_bounds', 'LineArray', 1, v_line)
    ib_contract(G + 'multiline.py::MultiLineArray.intersects_bounds', 'MultiLineArray', 2, v_mline)
    ib_contract(G + 'polygon.py::PolygonArray.intersects_bounds', 'PolygonArray', 2, v_poly)
    ib_contract(G + 'multipolygon.py::MultiPolygonArray.intersects_bounds', 'MultiPolygonArray', 3, v_mpoly)

    # ------------------------------------------------------------ length / area wrappers
    def measure_contract(target, cls, levels, fn_name):
        cfgs = [{'levels': levels, 'validity': vv} for vv in (True, False)]
        finite = fn_name == 'compute_area'

        def params(cfg):
            return [('self', ListGeomArray(levels, cls=cls, finite=finite, validity=bool(cfg.get('validity', True))))]

        def req(c):
            offs = offs_of(c.self, levels)
            v = vals_of(c.self)
            last = offs[-1]
            return well_formed(c.self, levels) + validity_ok(c.self) + [
                # compute_line_length reads the first vertex of every line before looking at its length
                ('first-vertex-readable', forall('int', lambda k: Implies(And(k >= 0, k < last.n - 1), last[k] + 1 < v.n)))]

        def elem_offsets(c, i):
            rep = rep_of(c.self)
            offs = offs_of(c.self, levels)
            slot = rep.offset + i
            if levels == 1:
                return offs[0].sub(slot, 2)
            if levels == 2:
                return offs[1].sub(offs[0][slot], offs[0][slot + 1] + 1 - offs[0][slot])
            o0, o1, o2 = offs
            return o2.sub(o1[o0[slot]], o1[o0[slot + 1]] + 1 - o1[o0[slot]])

        def ens(c, r):
            rep = rep_of(c.self)
            v = vals_of(c.self)

            def row(i):
                exp = measure_spec(fn_name, v, elem_offsets(c, i))
                return Ite(is_null(c.self, i), r[i].is_nan(), r[i].same(exp))
            return [('length', r.n == rep.length),
                    ('row-i-is-the-measure-of-element-i', forall('int', lambda i: Implies(And(i >= 0, i < rep.length), row(i))))]

        reg.add(Contract(target, params, returns=Arr('float'), requires=req, ensures=ens, configs=cfgs,
                         flags=('property',), props=('C14', 'C16', 'C17'), fuel=1, solver_opts={'arith.nl': False}))

    measure_contract(G + 'line.py::LineArray.length', 'LineArray', 1, 'compute_line_length')
    measure_contract(G + 'multiline.py::MultiLineArray.length', 'MultiLineArray', 2, 'compute_line_length')
    measure_contract(G + 'polygon.py::PolygonArray.length', 'PolygonArray', 2, 'compute_line_length')
    measure_contract(G + 'polygon.py::PolygonArray.area', 'PolygonArray', 2, 'compute_area')
    measure_contract(G + 'multipolygon.py::MultiPolygonArray.length', 'MultiPolygonArray', 3, 'compute_line_length')
    measure_contract(G + 'multipolygon.py::MultiPolygonArray.area', 'MultiPolygonArray', 3, 'compute_area')
