"""C01 - box-intersection kernels of intersection.py within the verifier's reach:
segments_intersect_1d, segments_intersect (under the precondition its call sites establish),
multipoints_intersect_bounds.  Real arithmetic (QF_NRA), coordinates finite.

segments_intersect is NOT a general segment-intersection test (a zero-length `a` in the interior of `b`
gives False); its call sites pass an axis-parallel box edge of positive length as `b`, oriented low->high,
and only reach it when no vertex of the line lies in the closed box, so no end point of `a` is on `b`.
Under that precondition:   result  <=>  exists s,t in [0,1]. a0 + s (a1-a0) = b0 + t (b1-b0).
"""
import z3

from pyvc.contracts import Arr, Bool, Contract, Flt, Int, Lemma, Loop
from pyvc.values import (FIN, SBool, SFloat, SInt, And, Implies, Ite, Not, Or, exists, forall)
from .c02_point import onseg_qf

P = ('C01',)
# the segment tests are symmetric in the direction of each segment (their contracts say so: the overlap of the
# coordinate ranges, the geometric meet): what "oriented() does not change any intersection result" (C15) rests on
PSEG = ('C01', 'C15')
INT = 'spatialpandas/geometry/_algorithms/intersection.py'
Z = SFloat.const(0.0)
ONE = SFloat.const(1.0)


def fmin(a, b):
    return Ite(b < a, b, a)


def fmax(a, b):
    return Ite(b > a, b, a)


def meet_at(c, s, t):
    """parameters s,t in [0,1] at which segment a and segment b share a point"""
    return And(s >= Z, s <= ONE, t >= Z, t <= ONE,
               c.ax0 + s * (c.ax1 - c.ax0) == c.bx0 + t * (c.bx1 - c.bx0),
               c.ay0 + s * (c.ay1 - c.ay0) == c.by0 + t * (c.by1 - c.by0))


def sdiv(n, d):
    """n / d, with 0 when d == 0 (only used to name witness candidates)"""
    return Ite(d != Z, n / Ite(d != Z, d, ONE), Z)


def si_candidates(ax0, ay0, ax1, ay1, bx0, by0, bx1, by1):
    """witness parameters (s, t) for `segments_intersect` answering True: b horizontal / b vertical"""
    dax, day = ax1 - ax0, ay1 - ay0
    dbx, dby = bx1 - bx0, by1 - by0
    s_h = sdiv(by0 - ay0, day)
    t_h = sdiv(ax0 + s_h * dax - bx0, dbx)
    s_v = sdiv(bx0 - ax0, dax)
    t_v = sdiv(ay0 + s_v * day - by0, dby)
    # a crosses the line of b at s_h; or a lies on that line and an end point of b lies on a
    cands_h = [(s_h, t_h), (sdiv(bx0 - ax0, dax), Z), (sdiv(bx1 - ax0, dax), ONE)]
    cands_v = [(s_v, t_v), (sdiv(by0 - ay0, day), Z), (sdiv(by1 - ay0, day), ONE)]
    return cands_h, cands_v


def register(reg):
    F = Flt(finite=True)
    # ------------------------------------------------------------ segments_intersect_1d
    reg.add(Contract(INT + '::segments_intersect_1d', [(n, F) for n in ('ax0', 'ax1', 'bx0', 'bx1')], returns=Bool(),
                     ensures=lambda c, r: [('intervals-overlap', r == And(
                         fmin(c.ax0, c.ax1) <= fmax(c.bx0, c.bx1), fmin(c.bx0, c.bx1) <= fmax(c.ax0, c.ax1)))],
                     props=PSEG))

    # ------------------------------------------------------------ segments_intersect
    names = ('ax0', 'ay0', 'ax1', 'ay1', 'bx0', 'by0', 'bx1', 'by1')

    def si_requires(c):
        horiz = And(c.by0 == c.by1, c.bx0 < c.bx1)
        vert = And(c.bx0 == c.bx1, c.by0 < c.by1)
        which = c.config.get('b')
        # verified per case (b horizontal / b vertical); a caller has to establish one of the two
        shape = Or(horiz, vert) if which is None else (horiz if which == 'horizontal' else vert)
        return [('b-axis-parallel-positive-length', shape),
                ('a-end-points-not-on-b', And(Not(onseg_qf(c.bx0, c.by0, c.bx1, c.by1, c.ax0, c.ay0)),
                                              Not(onseg_qf(c.bx0, c.by0, c.bx1, c.by1, c.ax1, c.ay1))))]

    def si_ensures(c, r):
        dax, day = c.ax1 - c.ax0, c.ay1 - c.ay0
        dbx, dby = c.bx1 - c.bx0, c.by1 - c.by0
        s_h = sdiv(c.by0 - c.ay0, day)
        s_v = sdiv(c.bx0 - c.ax0, dax)
        cands_h, cands_v = si_candidates(c.ax0, c.ay0, c.ax1, c.ay1, c.bx0, c.by0, c.bx1, c.by1)
        which = c.config.get('b')
        met_h, met_v = Or(*[meet_at(c, s, t) for s, t in cands_h]), Or(*[meet_at(c, s, t) for s, t in cands_v])
        if which is None:
            # at a call site: the union of the two verified cases
            sound = And(Implies(c.by0 == c.by1, met_h), Implies(c.bx0 == c.bx1, met_v))
        else:
            sound = met_h if which == 'horizontal' else met_v
        # quantifier-free instance of `complete` at the crossing parameter (what call sites use)
        px_h, py_v = c.ax0 + s_h * dax, c.ay0 + s_v * day
        cross_h = And(day != Z, s_h >= Z, s_h <= ONE, c.bx0 <= px_h, px_h <= c.bx1)
        cross_v = And(dax != Z, s_v >= Z, s_v <= ONE, c.by0 <= py_v, py_v <= c.by1)
        if which is None:
            cqf = And(Implies(And(c.by0 == c.by1, cross_h), r), Implies(And(c.bx0 == c.bx1, cross_v), r))
        else:
            cqf = Implies(cross_h if which == 'horizontal' else cross_v, r)
        return [('complete', forall(['real', 'real'], lambda s, t: Implies(meet_at(c, s, t), r))),
                ('complete-at-crossing', cqf),
                ('sound', Implies(r, sound))]

    reg.add(Contract(INT + '::segments_intersect', [(n, F) for n in names], returns=Bool(),
                     requires=si_requires, ensures=si_ensures, props=PSEG, merge=False,
                     configs=[{'b': 'horizontal'}, {'b': 'vertical'}], tactic='qfnra-nlsat'))

    # ------------------------------------------------------------ multipoints_intersect_bounds
    def mp_requires(c):
        v = c.flat_values
        n = c.start_offsets.n
        return [('unit-stride', And(v.stride == 1, c.start_offsets.stride == 1, c.stop_offsets.stride == 1, c.result.stride == 1)),
                ('lengths', And(c.stop_offsets.n >= n, c.result.n == n)),
                ('ranges', forall('int', lambda k: Implies(And(k >= 0, k < n), And(
                    c.start_offsets[k] >= 0, c.start_offsets[k] <= c.stop_offsets[k], c.stop_offsets[k] <= v.n,
                    (c.stop_offsets[k] - c.start_offsets[k]) % 2 == 0))))]

    def hit(c, k):
        v = c.flat_values
        lo_x, hi_x = fmin(c.x0, c.x1), fmax(c.x0, c.x1)
        lo_y, hi_y = fmin(c.y0, c.y1), fmax(c.y0, c.y1)
        s, e = c.start_offsets[k], c.stop_offsets[k]
        # some vertex (cell position t, t+1) of the multipoint lies in the closed box
        return exists('int', lambda t: And(t >= s, t + 1 < e, (t - s) % 2 == 0,
                                           lo_x <= v[t], v[t] <= hi_x, lo_y <= v[t + 1], v[t + 1] <= hi_y))

    def mp_outer(c):
        n = c.a.start_offsets.n
        res = c.view(c.a.result)
        return [('range', And(c.i >= 0, c.i <= n, c.n == n, c.x0 == fmin(c.a.x0, c.a.x1), c.x1 == fmax(c.a.x0, c.a.x1),
                              c.y0 == fmin(c.a.y0, c.a.y1), c.y1 == fmax(c.a.y0, c.a.y1))),
                ('done', forall('int', lambda k: Implies(And(k >= 0, k < c.i), res[k] == hit(c.a, k)))),
                ('todo', forall('int', lambda k: Implies(And(k >= c.i, k < n), Not(res[k]))))]

    def mp_inner(c):
        a = c.a
        v = a.flat_values
        return [('range', And(c.i >= 0, c.i < a.start_offsets.n, c.start == a.start_offsets[c.i], c.stop == a.stop_offsets[c.i],
                              c.j >= c.start, (c.j - c.start) % 2 == 0, Or(c.j <= c.stop, c.j == c.start), Not(c.point_in_rect),
                              c.x0 == fmin(a.x0, a.x1), c.x1 == fmax(a.x0, a.x1), c.y0 == fmin(a.y0, a.y1), c.y1 == fmax(a.y0, a.y1))),
                ('none-so-far', forall('int', lambda t: Implies(
                    And(t >= c.start, t < c.j, (t - c.start) % 2 == 0),
                    Not(And(c.x0 <= v[t], v[t] <= c.x1, c.y0 <= v[t + 1], v[t + 1] <= c.y1)))))]

    reg.add(Contract(INT + '::multipoints_intersect_bounds',
                     [('x0', F), ('y0', F), ('x1', F), ('y1', F), ('flat_values', Arr('float', finite=True)),
                      ('start_offsets', Arr('int', 'uint32')), ('stop_offsets', Arr('int', 'uint32')), ('result', Arr('bool'))],
                     returns=Arr('bool'), requires=mp_requires, modifies=('result',),
                     ensures=lambda c, r: [('cells', forall('int', lambda k: Implies(
                         And(k >= 0, k < c.start_offsets.n), c.post.result[k] == hit(c, k))))],
                     loops={0: Loop(var='i', invariant=mp_outer, prange_writes=('result',)),
                            1: Loop(var='j', invariant=mp_inner)},
                     props=P, merge=True))
