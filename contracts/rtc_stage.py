"""Stage run by pyvc.run for properties whose glue layer is covered by the run-time checked stand-in
(rtc/, executed under /venv/bin/python against the real code).  Violations are matched against
/verif/known_findings.json by their key; unknown keys become VIOLATION lines with a replay recipe."""
import json
import os
import subprocess
import sys

ROOT = os.path.dirname(os.path.dirname(os.path.abspath(__file__)))
VENV_PY = '/venv/bin/python'


def run_rtc(prop, tier, seed, reg=None, only=None, n=None):
    repo = os.environ.get('PYVC_REPO', '/repo')
    cmd = [VENV_PY, '-m', 'rtc.main', '--prop', prop, '--tier', tier, '--seed', str(seed), '--repo', repo]
    if only:
        cmd += ['--only', only]
    if n:
        cmd += ['--n', str(n)]
    env = dict(os.environ)
    env['PYTHONPATH'] = ROOT
    env['NUMBA_DISABLE_PERFORMANCE_WARNINGS'] = '1'
    env['PYTHONWARNINGS'] = 'ignore'
    p = subprocess.run(cmd, capture_output=True, text=True, cwd=ROOT, env=env, timeout=3600)
    if p.returncode != 0 or not p.stdout.strip():
        return {'coverage': {'error': p.stderr[-800:]}, 'failures': [], 'fault': f'rtc harness failed: {p.stderr[-400:]}'}
    doc = json.loads(p.stdout)
    known = {}
    path = os.path.join(ROOT, 'known_findings.json')
    if os.path.exists(path):
        with open(path) as f:
            kdoc = json.load(f)
        for kf in kdoc.get('open', []):
            if kf.get('rtc_key'):
                known[kf['rtc_key']] = kf
    failures = []
    known_hits = []
    os.makedirs(os.path.join(ROOT, 'replays'), exist_ok=True)
    for v in doc['violations']:
        kf = _match(known, v['key'])
        if kf is not None and prop in kf.get('properties', [kf.get('property')]):
            known_hits.append((kf, v))
            continue
        if kf is not None:
            known_hits.append((kf, v))
            continue
        safe = ''.join(ch if ch.isalnum() or ch in '-_.' else '_' for ch in v['key'])[:140]
        rp = os.path.join(ROOT, 'replays', f'{prop}-rtc-{safe}.json')
        with open(rp, 'w') as f:
            json.dump({'property': prop, 'kind': 'rtc', 'contract': v.get('contract'), 'key': v['key'], 'detail': v['detail'],
                       'recipe': v.get('recipe'), 'extra': {k: x for k, x in v.items() if k not in ('key', 'detail', 'recipe', 'contract')},
                       'confirmed_on_real_code': True,
                       'how_to_replay': f'PYTHONPATH={ROOT} {VENV_PY} -m rtc.main --prop {prop} --only {v.get("contract")}'}, f, indent=1, default=str)
        failures.append({'replay': rp, 'confirmed': True, 'key': v['key']})
    printed = set()
    for kf, v in known_hits:
        if kf['id'] not in printed:
            printed.add(kf['id'])
            print(f"KNOWN-FINDING: property={prop} {kf['what']} [rtc key {v['key']}]")
    for e in doc.get('errors', []):
        print(f"RTC-ERROR property={prop} contract={e['contract']}: {e['error']}", file=sys.stderr)
    cov = {'contracts': doc['contracts'], 'evaluations': doc['evaluations'],
           'distinct_inputs': doc.get('distinct_inputs'), 'distinct_nontrivial': doc.get('distinct_nontrivial'),
           'rule': 'inputs are geometry arrays / frames / box sets drawn by rtc/gen.py (integer and half-integer '
                   'coordinates, missing and empty elements, random derivation steps); distinct = distinct recipes '
                   '(sha1), non-trivial = at least one non-missing element / one box',
           'known_findings_seen': sorted({kf['id'] for kf, _ in known_hits}),
           'harness_errors': doc.get('errors', []),
           'what': 'run-time checked contracts of the glue layer on generated inputs against the real code '
                   '(bounded stand-in: never counted in discharged)'}
    out = {'coverage': cov, 'failures': failures}
    if doc.get('errors'):
        out['fault'] = 'rtc contract raised: ' + doc['errors'][0]['error']
    return out


def _match(known, key):
    for pat, kf in known.items():
        if key == pat or (pat.endswith('*') and key.startswith(pat[:-1])):
            return kf
    return None
