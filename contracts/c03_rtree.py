"""C03 - Hilbert R-tree index arithmetic (spatialpandas/spatialindex/rtree.py).

Deductive part: heap-index helpers and the node -> key-range mapping (_leaf_start, _start_index,
_stop_index) against recursive spec functions LEFTMOST / RIGHTMOST (the leftmost / rightmost leaf below a
node of the array-encoded binary tree), with termination.  The build and the query worklist use python
lists of symbolic length, outside the engine's subset: they are covered by the run-time checked stand-in
(rtc: API-level contract on generated box sets incl. NaN rows), reported as bounded.
"""
import z3

from pyvc.contracts import Arr, Contract, Int, Lemma, Loop, Rec, RecSpec
from pyvc.values import SBool, SInt, And, Implies, Ite, Not, Or, forall

P = ('C03',)
RT = 'spatialpandas/spatialindex/rtree.py'

LEFTMOST = RecSpec('LEFTMOST', ['int', 'int'], 'int',
                   lambda self, node, tl: Ite(And(node >= 0, 2 * node + 1 < tl), self(2 * node + 1, tl), node))
RIGHTMOST = RecSpec('RIGHTMOST', ['int', 'int'], 'int',
                    lambda self, node, tl: Ite(And(node >= 0, 2 * node + 2 < tl), self(2 * node + 2, tl), node))

SELF = Rec('_NumbaRtree', _bounds=Arr('float', ndim=2), _keys=Arr('int', 'int64'), _page_size=Int(),
           _bounds_tree=Arr('float', ndim=2))


def tree_len(c):
    return c.self._bounds_tree.shape[0]


def register(reg):
    reg.add(Contract(RT + '::_left_child', [('node', Int())], returns=Int(),
                     ensures=lambda c, r: [('value', r == 2 * c.node + 1)], props=P))
    reg.add(Contract(RT + '::_right_child', [('node', Int())], returns=Int(),
                     ensures=lambda c, r: [('value', r == 2 * c.node + 2)], props=P))
    reg.add(Contract(RT + '::_parent', [('node', Int())], returns=Int(),
                     ensures=lambda c, r: [('floor-half', And(2 * r <= c.node - 1, c.node - 1 <= 2 * r + 1))], props=P))

    reg.add(Contract(RT + '::_NumbaRtree._leaf_start', [('self', SELF)], returns=Int(),
                     ensures=lambda c, r: [('value', And(2 * r <= tree_len(c) - 1, tree_len(c) - 1 <= 2 * r + 1))],
                     props=P))

    def tree_ok(c):
        tl = tree_len(c)
        return [('tree-length-odd', And(tl >= 1, tl % 2 == 1)), ('node-in-tree', And(c.node >= 0, c.node < tl))]

    def start_ens(c, r):
        tl = tree_len(c)
        leaf_start = (tl + 1) // 2 - 1
        return [('first-key-of-leftmost-leaf', r == (LEFTMOST(c.node, tl) - leaf_start) * c.self._page_size)]

    def stop_ens(c, r):
        tl = tree_len(c)
        leaf_start = (tl + 1) // 2 - 1
        return [('one-past-last-key-of-rightmost-leaf', r == (RIGHTMOST(c.node, tl) - leaf_start + 1) * c.self._page_size)]

    reg.add(Contract(RT + '::_NumbaRtree._start_index', [('self', SELF), ('node', Int())], returns=Int(),
                     requires=tree_ok, ensures=start_ens,
                     loops={0: Loop(invariant=lambda c: [
                         ('node-in-tree', And(c.node >= 0, c.node < tree_len(c.a))),
                         ('leaf-start', And(2 * c.leaf_start <= tree_len(c.a) - 1, tree_len(c.a) - 1 <= 2 * c.leaf_start + 1)),
                         ('same-leftmost', LEFTMOST(c.node, tree_len(c.a)) == LEFTMOST(c.a.node, tree_len(c.a)))],
                         decreases=lambda c: tree_len(c.a) - c.node)},
                     props=P, fuel=1))
    reg.add(Contract(RT + '::_NumbaRtree._stop_index', [('self', SELF), ('node', Int())], returns=Int(),
                     requires=tree_ok, ensures=stop_ens,
                     loops={0: Loop(invariant=lambda c: [
                         ('node-in-tree', And(c.node >= 0, c.node < tree_len(c.a))),
                         ('leaf-start', And(2 * c.leaf_start <= tree_len(c.a) - 1, tree_len(c.a) - 1 <= 2 * c.leaf_start + 1)),
                         ('same-rightmost', RIGHTMOST(c.node, tree_len(c.a)) == RIGHTMOST(c.a.node, tree_len(c.a)))],
                         decreases=lambda c: tree_len(c.a) - c.node)},
                     props=P, fuel=1))

    # spec lemmas: in the perfect tree with L leaves (2L-1 nodes) a node whose subtree spans w = 2^e leaves has
    # LEFTMOST(node) = (node+1)*w - 1 and RIGHTMOST(node) = (node+2)*w - 2; hence the children tile the parent.
    from pyvc.values import pow2

    def pow2_def(e):
        """defining equations of the uninterpreted pow2 at e (definitional, not an assumption about the code)"""
        return And(Implies(e == 0, pow2(e) == 1), Implies(e > 0, And(pow2(e) == 2 * pow2(e - 1), pow2(e - 1) >= 1)))

    def closed_req(n):
        w = pow2(n.e)
        return [And(n.L >= 1, n.e >= 0, n.node >= 0, (n.node + 1) * w >= n.L, (n.node + 2) * w <= 2 * n.L)]

    def closed_ens(n):
        tl = 2 * n.L - 1
        w = pow2(n.e)
        return [('leftmost', LEFTMOST(n.node, tl) == (n.node + 1) * w - 1),
                ('rightmost', RIGHTMOST(n.node, tl) == (n.node + 2) * w - 2)]

    reg.add_lemma(Lemma('leaf_range_closed_form', [('L', 'int'), ('e', 'int'), ('node', 'int')],
                        requires=closed_req, ensures=closed_ens,
                        proof=lambda n, use: [pow2_def(n.e),
                                              use('leaf_range_closed_form', L=n.L, e=n.e - 1, node=2 * n.node + 1),
                                              use('leaf_range_closed_form', L=n.L, e=n.e - 1, node=2 * n.node + 2)],
                        decreases=lambda n: n.e, props=P))

    def tile_ens(n):
        tl = 2 * n.L - 1
        return [('contiguous', RIGHTMOST(2 * n.node + 1, tl) + 1 == LEFTMOST(2 * n.node + 2, tl)),
                ('starts', LEFTMOST(n.node, tl) == LEFTMOST(2 * n.node + 1, tl)),
                ('stops', RIGHTMOST(n.node, tl) == RIGHTMOST(2 * n.node + 2, tl))]

    reg.add_lemma(Lemma('children_tile_parent', [('L', 'int'), ('e', 'int'), ('node', 'int')],
                        requires=lambda n: closed_req(n) + [n.e >= 1],
                        ensures=tile_ens,
                        proof=lambda n, use: [pow2_def(n.e),
                                              use('leaf_range_closed_form', L=n.L, e=n.e - 1, node=2 * n.node + 1),
                                              use('leaf_range_closed_form', L=n.L, e=n.e - 1, node=2 * n.node + 2)],
                        props=P))
