"""Fixed-width (point) arrays under contract, relative to the pyarrow FixedSizeBinaryArray model:
  rec 'FixedArray': offset, length, bufs = (validity bitmap | None, coordinate buffer);
element i = (vals[2(offset+i)], vals[2(offset+i)+1]); null iff bit offset+i of the bitmap is 0; the bytes of a
null slot are arbitrary (here: finite floats - zeros in practice - because the point kernels are specified
for finite coordinates).

Under contract: GeometryFixedArray.flat_values, PointArray.x / .y, PointArray.intersects_bounds(bounds, inds),
PointArray._intersects_polygon / _intersects_multipoint (inds handling) and PointArray.intersects for
polygon-like and multipoint shapes incl. the missing-point mask."""
import z3

from pyvc import state as st
from pyvc.contracts import Arr, Const, Contract, Flt, NoneSort, Rec, RecSpec, Sort, Tup, same_array
from pyvc.values import (FIN, NONE, SArr, SBool, SFloat, SInt, SNone, SRecord, STuple, And, Implies, Ite, Not, Or,
                         exists, forall, fresh_name)
from pyvc.builtins_np import DType
from .c16_isnull import bit_is_zero
from .c02_point import wn_spec
from .c14_measures import offsets_ok
from .c01_box import fmin, fmax

FIX = 'spatialpandas/geometry/basefixed.py'
PT = 'spatialpandas/geometry/point.py'


class PointArraySort(Sort):
    def __init__(self, validity=True, finite=True):
        self.validity = validity
        self.finite = finite

    def make(self, state, name):
        a = []
        if self.validity:
            nb = SInt(z3.Int(fresh_name(name + '_vlen')))
            a.append(nb >= 0)
            vb = st.new_sym_array(state, 'int', 'uint8', [nb], name + '_valid')
            vb.base.meta['buffer'] = True
        else:
            vb = NONE
        nv = SInt(z3.Int(fresh_name(name + '_vals_len')))
        a.append(nv >= 0)
        vals = st.new_sym_array(state, 'float', 'float64', [nv], name + '_vals', finite=self.finite)
        vals.base.meta['buffer'] = True
        off = SInt(z3.Int(fresh_name(name + '_offset')))
        ln = SInt(z3.Int(fresh_name(name + '_length')))
        a += [off >= 0, ln >= 0]
        rep = SRecord('FixedArray', {'offset': off, 'length': ln, 'bufs': STuple([vb, vals])})
        rep.fields['m:buffers'] = lambda eng, s, fr, obj, args, kwargs, lineno: obj.fields['bufs']
        vals.base.meta['coordinate_dtype'] = True
        me = SRecord('PointArray', {'data': rep, 'numpy_dtype': DType('float64', coordinate=True), '_element_len': SInt(2), '_sindex': NONE})
        return me, a

    def gen(self, rng, config):
        from pyvc.witness import gen_float
        n_parent = rng.choice([0, 1, 2, 3, 4, 5])
        off = rng.randint(0, n_parent)
        if rng.random() < 0.2:
            n_parent = rng.choice([9, 12, 17, 20])      # room for a window starting at a byte-aligned offset
            off = 8 * rng.randint(1, n_parent // 8)
        ln = rng.randint(0, n_parent - off)
        vals = [gen_float(rng, self.finite) for _ in range(2 * n_parent)]
        coord_dtype = rng.choice([None] * 6 + ['int32', 'int16', 'int64', 'float32'])
        if coord_dtype and coord_dtype.startswith('int'):
            vals = [float(rng.choice([0, 1, -1, 2, 3, -2, 4])).hex() for _ in vals]
        if self.validity and n_parent:
            nbytes = (n_parent + 7) // 8
            vb = {'k': 'array', 'dtype': 'uint8', 'shape': [nbytes], 'data': [rng.randint(0, 255) | (0 if rng.random() < 0.5 else 255) for _ in range(nbytes)]}
        else:
            vb = {'k': 'none'}
        rep = {'k': 'record', 'cls': 'FixedArray', 'fields': {'offset': {'k': 'int', 'v': off}, 'length': {'k': 'int', 'v': ln},
                                                             'bufs': {'k': 'tuple', 'items': [vb, {'k': 'array', 'dtype': 'float64', 'shape': [len(vals)], 'data': vals}]}}}
        fl = [float.fromhex(x) for x in vals if x not in ('nan', 'inf', '-inf')]
        if coord_dtype and len(fl) == len(vals) and (coord_dtype == 'float32' or all(v_.is_integer() and abs(v_) < 2 ** 14 for v_ in fl)):
            rep['fields']['coord_dtype'] = {'k': 'other', 'v': coord_dtype}
        return {'k': 'record', 'cls': 'PointArray', 'fields': {'data': rep}}


def rep(selfv):
    return selfv.data


def vals(selfv):
    return rep(selfv).bufs[1]


def wf(selfv):
    r = rep(selfv)
    out = [('coordinate-buffer-covers-the-array', vals(selfv).n >= 2 * (r.offset + r.length)),
           ('unit-stride', vals(selfv).stride == 1)]
    vb = r.bufs[0]
    if not isinstance(vb, SNone):
        out.append(('validity-bitmap-covers-the-array', Or(vb.n == 0, 8 * vb.n >= r.offset + r.length)))
    return out


def _nullbit_body(self, V, n, idx):
    byte = SInt(z3.Select(V, (idx // 8).z()))
    return And(n > 0, bit_is_zero(byte, idx % 8))


# bit `idx` of the validity bitmap V (n bytes) is 0.  A defined function rather than the inline div/mod formula: the
# glue proofs only move it around (it is unfolded at ground applications, e.g. when a contract is evaluated on a
# concrete result)
NULLBIT = RecSpec('NULLBIT', [z3.ArraySort(z3.IntSort(), z3.IntSort()), 'int', 'int'], 'bool', _nullbit_body)


def is_null(selfv, i):
    r = rep(selfv)
    vb = r.bufs[0]
    if isinstance(vb, SNone):
        return SBool(False)
    return NULLBIT(vb.A, vb.n, vb.off + r.offset + i)


def px(selfv, i):
    return vals(selfv)[2 * (rep(selfv).offset + i)]


def py(selfv, i):
    return vals(selfv)[2 * (rep(selfv).offset + i) + 1]


def register(reg):
    register_intersects(reg)
    CFG = [{'validity': True}, {'validity': False}]

    def S(cfg):
        return PointArraySort(bool(cfg.get('validity', True)), finite=bool(cfg.get('finite', True)))

    # ------------------------------------------------------------ isna for fixed arrays (same function, fixed rep)
    BASE = 'spatialpandas/geometry/base.py'
    # GeometryArray.isna is already under contract for list arrays (glue_polygon); for the fixed representation we
    # state its effect through the same _extract_isnull_bytemap reasoning as an assumed property of the record
    reg.add(Contract('<fixed>::PointArray.isna', lambda cfg: [('self', S(cfg))], returns=Arr('bool'),
                     requires=lambda c: wf(c.self),
                     ensures=lambda c, r: [('length', r.n == rep(c.self).length),
                                           ('cells', forall('int', lambda i: Implies(And(i >= 0, i < rep(c.self).length),
                                                                                     r[i] == is_null(c.self, i))))],
                     trusted=True, note='(GeometryArray.isna on a FixedSizeBinaryArray: same code path as the list-array '
                                        'contract proved in glue_polygon: bit offset+i of buffers()[0])'))

    # ------------------------------------------------------------ flat_values
    def fv_value(c):
        rp = rep(c.self)
        return vals(c.self).sub(2 * rp.offset, 2 * rp.length)

    def fv_ens(c, r):
        rp = rep(c.self)
        return [('is-the-window-of-the-coordinate-buffer', same_array(r, fv_value(c))),
                ('length', r.n == 2 * rp.length),
                ('cells', forall('int', lambda k: Implies(And(k >= 0, k < 2 * rp.length), r[k].same(vals(c.self)[2 * rp.offset + k]))))]

    # (a view of the buffer; for an empty array the code returns a fresh empty array - indistinguishable)
    reg.add(Contract(FIX + '::GeometryFixedArray.flat_values', lambda cfg: [('self', S(cfg))],
                     returns=fv_value, requires=lambda c: wf(c.self), ensures=fv_ens,
                     configs=CFG + [{'validity': True, 'finite': False}], flags=('property',), props=('C16', 'C13', 'C02')))

    # ------------------------------------------------------------ bounds (per-point rows), any coordinates
    from .c13_bounds import AT, AV, MAXV, MINV, _cell
    from pyvc.contracts import Lemma
    from pyvc.lemmas import instance_forall
    NANF = SFloat.const(float('nan'))

    def one_cell(n):
        x = _cell(n.A, n.T, n.lo)
        return [('min', MINV(n.A, n.T, n.lo, n.lo + 2).same(Ite(x.is_fin(), x, SFloat.const(float('inf'))))),
                ('max', MAXV(n.A, n.T, n.lo, n.lo + 2).same(Ite(x.is_fin(), x, SFloat.const(float('-inf')))))]
    reg.add_lemma(Lemma('extrema_of_one_cell', [('A', AV), ('T', AT), ('lo', 'int')], ensures=one_cell, fuel=2,
                        props=('C13',)))

    def fin_or_nan(x):
        return Ite(x.is_fin(), x, NANF)

    def b_ens(c, r):
        rp = rep(c.self)

        def row(i):
            x, y = px(c.self, i), py(c.self, i)
            exp = [fin_or_nan(x), fin_or_nan(y), fin_or_nan(x), fin_or_nan(y)]
            return And(*[Ite(is_null(c.self, i), r[i, j].is_nan(), r[i, j].same(exp[j])) for j in range(4)])
        return [('shape', And(r.shape[0] == rp.length, r.shape[1] == 4)),
                ('row-i-is-the-finite-coordinates-of-point-i', forall('int', lambda i: Implies(And(i >= 0, i < rp.length), row(i))))]

    def b_hints(c, r):
        v = vals(c.self)
        rp = rep(c.self)
        from .c13_bounds import total_bounds_spec

        def spec_row(i):
            exp = total_bounds_spec(v, 2 * (rp.offset + i), 2 * (rp.offset + i) + 2)
            return And(*[Ite(is_null(c.self, i), r[i, j].is_nan(), r[i, j].same(exp[j])) for j in range(4)])
        return [('rows-are-the-kernel-rows-of-present-points', forall('int', lambda i: Implies(And(i >= 0, i < rp.length), spec_row(i)))),
                ('one-cell', instance_forall(reg, 'extrema_of_one_cell', 'int', lambda k: dict(A=v.A, T=v.T, lo=k),
                                             patterns=lambda k: [MINV(v.A, v.T, k, k + 2).val]))]

    BCFG = [{'validity': True, 'finite': False}, {'validity': False, 'finite': False}]
    reg.add(Contract(FIX + '::GeometryFixedArray.bounds', lambda cfg: [('self', S(cfg))], returns=Arr('float', ndim=2, cols=4),
                     requires=lambda c: wf(c.self), ensures=b_ens, post_hints=b_hints, configs=BCFG,
                     post_using={'row-i-is-the-finite-coordinates-of-point-i': ['hint:rows-are', 'lemma:one-cell', 'req:']},
                     flags=('property',), props=('C13', 'C17', 'C16'), fuel=1))

    # ------------------------------------------------------------ x / y
    def xy_contract(name, get):
        reg.add(Contract(PT + '::PointArray.' + name, lambda cfg: [('self', S(cfg))], returns=Arr('float'),
                         requires=lambda c: wf(c.self),
                         ensures=lambda c, r: [('length', r.n == rep(c.self).length),
                                               ('cells', forall('int', lambda i: Implies(
                                                   And(i >= 0, i < rep(c.self).length),
                                                   Ite(is_null(c.self, i), r[i].is_nan(), r[i].same(get(c.self, i))))))],
                         configs=CFG, flags=('property',), props=('C16', 'C17', 'C01')))
    xy_contract('x', px)
    xy_contract('y', py)

    # ------------------------------------------------------------ intersects_bounds(bounds, inds)
    F = Flt(finite=True)
    IB_CFG = [{'validity': v, 'inds': m} for v in (True, False) for m in ('none', 'given')]

    def ib_params(cfg):
        inds = Arr('int', 'int64') if cfg.get('inds') == 'given' else NoneSort()
        return [('self', S(cfg)), ('bounds', Tup(F, F, F, F)), ('inds', inds)]

    def inds_req(c):
        out = wf(c.self)
        if c.config.get('inds') == 'given':
            out.append(('inds-in-range', forall('int', lambda k: Implies(And(k >= 0, k < c.inds.n),
                                                                         And(c.inds[k] >= 0, c.inds[k] < rep(c.self).length)))))
            out.append(('inds-unit-stride', c.inds.stride == 1))
        return out

    def ib_ens(c, r):
        given = c.config['inds'] == 'given'
        n = c.inds.n if given else rep(c.self).length
        b = c.bounds
        lx, ly, hx, hy = fmin(b[0], b[2]), fmin(b[1], b[3]), fmax(b[0], b[2]), fmax(b[1], b[3])

        def row(k):
            i = c.inds[k] if given else k
            x, y = px(c.self, i), py(c.self, i)
            return r[k] == And(Not(is_null(c.self, i)), lx <= x, x <= hx, ly <= y, y <= hy)
        return [('length', r.n == n), ('row-k-is-point-inds-k-in-the-closed-box', forall('int', lambda k: Implies(And(k >= 0, k < n), row(k))))]

    reg.add(Contract(PT + '::PointArray.intersects_bounds', ib_params, returns=Arr('bool'), requires=inds_req,
                     ensures=ib_ens, configs=IB_CFG, props=('C01', 'C17', 'C16')))


class ShapeSort(Sort):
    """a scalar shape as seen by the point kernels: its coordinate buffer and innermost (ring / line) offsets
    (the scalar buffer layer - GeometryList.buffer_values / buffer_inner_offsets - is assumed here)"""

    def __init__(self, cls):
        self.cls = cls

    def make(self, state, name):
        a = []
        nv = SInt(z3.Int(fresh_name(name + '_vals_len')))
        no = SInt(z3.Int(fresh_name(name + '_offs_len')))
        a += [nv >= 0, no >= 0]
        v = st.new_sym_array(state, 'float', 'float64', [nv], name + '_vals', finite=True)
        fields = {'buffer_values': v, 'flat_values': v}
        if self.cls not in ('MultiPoint',):
            fields['buffer_inner_offsets'] = st.new_sym_array(state, 'int', 'uint32', [no], name + '_offs')
        return SRecord(self.cls, fields), a


def _gen_shape(rng, cls, near=None):
    """a scalar shape as a typed record: closed rectangular rings (valid: first ring the shell, others inside it);
    a Point is one of the array's own points or a point a few ulps / a tiny or metre-scale step away from one"""
    if cls == 'Point':
        import math
        base = rng.choice(near) if near and rng.random() < 0.85 else (float(rng.randint(-3, 3)), float(rng.randint(-3, 3)))
        x, y = base
        r = rng.random()
        if r < 0.3:
            pass
        elif r < 0.5:
            x = math.nextafter(x, math.inf) if rng.random() < 0.5 else x + 2.0 ** -30
        elif r < 0.7:
            y = math.nextafter(y, -math.inf) if rng.random() < 0.5 else y - 2.0 ** -30
        elif r < 0.85:
            x, y = x * (1 + 2.0 ** -20), y
        else:
            x, y = x + rng.randint(-1, 1), y + rng.randint(-1, 1)
        return {'k': 'record', 'cls': 'Point', 'fields': {'x': {'k': 'float', 'v': float(x).hex()},
                                                          'y': {'k': 'float', 'v': float(y).hex()}}}
    cx, cy = rng.randint(-2, 3), rng.randint(-2, 3)
    w, h = rng.randint(2, 3), rng.randint(2, 3)
    rings = [[cx - w, cy - h, cx + w, cy - h, cx + w, cy + h, cx - w, cy + h, cx - w, cy - h]]
    if cls != 'MultiPoint' and rng.random() < 0.5:
        rings.append([cx - 1, cy - 1, cx - 1, cy + 1, cx + 1, cy + 1, cx + 1, cy - 1, cx - 1, cy - 1])
    if rng.random() < 0.3:
        rings = [[c for p_ in list(zip(r[0::2], r[1::2]))[::-1] for c in p_] for r in rings]
    vals = [float(c).hex() for r in rings for c in r]
    fields = {'buffer_values': {'k': 'array', 'dtype': 'float64', 'shape': [len(vals)], 'data': vals}}
    fields['flat_values'] = fields['buffer_values']
    if cls != 'MultiPoint':
        offs = [0]
        for r in rings:
            offs.append(offs[-1] + len(r))
        fields['buffer_inner_offsets'] = {'k': 'array', 'dtype': 'uint32', 'shape': [len(offs)], 'data': offs}
    return {'k': 'record', 'cls': cls, 'fields': fields}


def _gen_intersects(pname):
    def gen(rng, config):
        me = PointArraySort(bool(config.get('validity', True))).gen(rng, config)
        n = me['fields']['data']['fields']['length']['v']
        if n == 0 and rng.random() < 0.8:
            me = PointArraySort(bool(config.get('validity', True))).gen(rng, config)
            n = me['fields']['data']['fields']['length']['v']
        near = None
        if config.get('shape') == 'Point':
            try:
                vals = [float.fromhex(v) if isinstance(v, str) else float(v)
                        for v in me['fields']['data']['fields']['bufs']['items'][1]['data']]
                near = [(vals[2 * k], vals[2 * k + 1]) for k in range(len(vals) // 2)
                        if vals[2 * k] == vals[2 * k] and abs(vals[2 * k]) != float('inf')
                        and vals[2 * k + 1] == vals[2 * k + 1] and abs(vals[2 * k + 1]) != float('inf')] or None
            except (KeyError, TypeError, ValueError, IndexError):
                near = None
        shape = _gen_shape(rng, config.get('shape', 'Polygon'), near)
        if config.get('inds') == 'given':
            if n and rng.random() < 0.45:
                idx = list(range(n))
                rng.shuffle(idx)           # every position once, in another order
            else:
                idx = [rng.randrange(n) for _ in range(rng.randint(0, 5))] if n else []
            inds = {'k': 'array', 'dtype': 'int64', 'shape': [len(idx)], 'data': idx}
        else:
            inds = {'k': 'none'}
        return [me, shape, inds]
    return gen


def register_intersects(reg):
    def S(cfg):
        return PointArraySort(bool(cfg.get('validity', True)))
    POLY_CFG = [{'validity': v, 'inds': m, 'shape': k} for v in (True, False) for m in ('none', 'given')
                for k in ('Polygon', 'MultiPolygon')]

    def shape_sort(cfg, default):
        k = cfg.get('shape') if isinstance(cfg.get('shape'), str) else default
        # a scalar Point as seen by the array kernel: its two coordinates (Point.x / Point.y are assumed to be them)
        return Rec('Point', x=Flt(finite=True), y=Flt(finite=True)) if k == 'Point' else ShapeSort(k)

    def params(cfg):
        inds = Arr('int', 'int64') if cfg.get('inds') == 'given' else NoneSort()
        return [('self', S(cfg)), ('shape', shape_sort(cfg, 'Polygon') if cfg.get('shape') == 'Point' else ShapeSort(cfg.get('shape') if isinstance(cfg.get('shape'), str) else 'Polygon')),
                ('inds', inds)]

    def req(c):
        out = wf(c.self)
        if c.config.get('inds') == 'given':
            out.append(('inds-in-range', forall('int', lambda k: Implies(And(k >= 0, k < c.inds.n),
                                                                         And(c.inds[k] >= 0, c.inds[k] < rep(c.self).length)))))
            out.append(('inds-unit-stride', c.inds.stride == 1))
        sh = c.shape
        if c.config['shape'] == 'Point':
            return out
        if c.config['shape'] in ('Polygon', 'MultiPolygon'):
            out += [('shape-offsets', And(sh.buffer_inner_offsets.n >= 1, sh.buffer_inner_offsets.stride == 1,
                                          sh.buffer_values.stride == 1)),
                    ('shape-offsets-ok', offsets_ok(sh.buffer_inner_offsets, sh.buffer_values))]
        else:
            out += [('shape-even-length', And(sh.flat_values.n % 2 == 0, sh.flat_values.stride == 1))]
        return out

    def verdict(c, i):
        sh = c.shape
        x, y = px(c.self, i), py(c.self, i)
        if c.config['shape'] == 'Point':
            return And(x == sh.x, y == sh.y)
        if c.config['shape'] in ('Polygon', 'MultiPolygon'):
            return wn_spec(sh.buffer_values, sh.buffer_inner_offsets, x, y) != 0
        m = sh.flat_values
        return exists('int', lambda q: And(q >= 0, 2 * q + 1 < m.n, m[2 * q] == x, m[2 * q + 1] == y))

    def ens(c, r):
        given = c.config['inds'] == 'given'
        n = c.inds.n if given else rep(c.self).length

        def row(k):
            i = c.inds[k] if given else k
            return r[k] == And(Not(is_null(c.self, i)), verdict(c, i))
        return [('length', r.n == n),
                ('row-k-is-the-verdict-for-point-inds-k-and-missing-points-never-intersect',
                 forall('int', lambda k: Implies(And(k >= 0, k < n), row(k))))]

    reg.add(Contract(PT + '::PointArray.intersects', params, returns=Arr('bool'), requires=req, ensures=ens,
                     configs=POLY_CFG + [{'validity': v, 'inds': m, 'shape': k} for v in (True, False)
                                         for m in ('none', 'given') for k in ('MultiPoint', 'Point')],
                     props=('C02', 'C17', 'C05'), fuel=0, gen=_gen_intersects('shape')))

    def helper(name, shapes):
        def hens(c, r):
            given = c.config['inds'] == 'given'
            n = c.inds.n if given else rep(c.self).length
            return [('length', r.n == n),
                    ('row-k-is-the-kernel-verdict-for-point-inds-k', forall('int', lambda k: Implies(
                        And(k >= 0, k < n), r[k] == verdict(c, c.inds[k] if given else k))))]
        pname = {'_intersects_polygon': 'polygon', '_intersects_multipoint': 'multipoint', '_intersects_point': 'point'}[name]

        def hparams(cfg):
            inds = Arr('int', 'int64') if cfg.get('inds') == 'given' else NoneSort()
            return [('self', S(cfg)), (pname, shape_sort(cfg, shapes[0])), ('inds', inds)]

        class _C:
            pass

        def adapt(fn):
            def g(c, *a):
                c2 = _C()
                c2.self, c2.shape, c2.config = c.self, getattr(c, pname), c.config
                if c.config.get('inds') == 'given':
                    c2.inds = c.inds
                return fn(c2, *a)
            return g
        reg.add(Contract(PT + '::PointArray.' + name, hparams, returns=Arr('bool'), requires=adapt(req), ensures=adapt(hens),
                         configs=[{'validity': v, 'inds': m, 'shape': k} for v in (True, False) for m in ('none', 'given')
                                  for k in shapes],
                         props=('C02', 'C05'), fuel=2, gen=_gen_intersects(pname)))
    helper('_intersects_polygon', ['Polygon', 'MultiPolygon'])
    helper('_intersects_multipoint', ['MultiPoint'])
    helper('_intersects_point', ['Point'])
