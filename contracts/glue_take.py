"""GeometryArray.take (C16): index validation and normalisation, relative to the assumed pyarrow contract
`ListArray.take(indices)` = the array whose slot k is slot indices[k] of the source (null where the index is
null).  Errors are part of the contract (pandas expects them): IndexError for indices out of bounds or a
non-empty take from an empty array, ValueError for indices < -1 with allow_fill or a non-NA fill value."""
import z3

from pyvc.contracts import Arr, Bool, Const, Contract, NoneSort, Sort
from pyvc.values import (NONE, SBool, SInt, SNone, SRecord, SStr, And, Implies, Ite, Not, Or, exists, forall)
from .glue_rep import ListGeomArray, OUT, rep_of, vals_of
from .glue_polygon import is_null

BASE = 'spatialpandas/geometry/base.py'


class TakeSelf(ListGeomArray):
    def make(self, state, name):
        me, a = super().make(state, name)
        rep = me.fields['listarray']

        def take(eng, s, fr, obj, args, kwargs, lineno):
            return SRecord('ListArrayTake', {'source': obj, 'indices': args[0], 'length': args[0].fields['length']})
        rep.fields['m:take'] = take
        me.fields['dtype'] = SStr('dtype')
        return me, a


def register(reg):
    cfgs = [{'levels': 1, 'allow_fill': f} for f in (False, True)]

    def params(cfg):
        return [('self', TakeSelf(1)), ('indices', Arr('int', 'int64')), ('allow_fill', Const(bool(cfg.get('allow_fill', False)))),
                ('fill_value', NoneSort())]

    def req(c):
        return [('unit-stride', c.indices.stride == 1)]

    def conds(c):
        n = rep_of(c.self).length
        idx = c.indices
        fill = bool(c.config['allow_fill'])
        any_ge0 = exists('int', lambda k: And(k >= 0, k < idx.n, idx[k] >= 0))
        empty_err = And(n == 0, idx.n > 0, SBool(True) if not fill else any_ge0)
        too_big = exists('int', lambda k: And(k >= 0, k < idx.n, idx[k] >= n))
        too_small = exists('int', lambda k: And(k >= 0, k < idx.n, idx[k] < -n)) if not fill else SBool(False)
        index_err = Or(empty_err, too_big, too_small)
        value_err = And(Not(index_err), exists('int', lambda k: And(k >= 0, k < idx.n, idx[k] < -1))) if fill else SBool(False)
        return index_err, value_err

    def raises(c):
        ie, ve = conds(c)
        return [('IndexError', ie), ('ValueError', ve)]

    def ens(c, r):
        n = rep_of(c.self).length
        idx = c.indices
        fill = bool(c.config['allow_fill'])
        t = r.data
        norm = lambda k: Ite(idx[k] < 0, idx[k] + n, idx[k])
        if 'source' not in t._rec.fields:
            # a real result (concrete replay / witness search): state the same thing over the element views -
            # slot k of the result holds exactly the coordinates of element indices[k] of the source, or is missing
            class _R:
                listarray = t
            rv, sv = vals_of(_R), vals_of(c.self)

            def slot_ok(k):
                j = norm(k)
                a0, a1 = OUT(_R, 1, k), OUT(_R, 1, k + 1)
                b0, b1 = OUT(c.self, 1, j), OUT(c.self, 1, j + 1)
                same = And(a1 - a0 == b1 - b0, forall('int', lambda q: Implies(And(q >= 0, q < a1 - a0), rv[a0 + q].same(sv[b0 + q]))))
                if fill:
                    return Ite(idx[k] < 0, is_null(_R, k), And(is_null(_R, k) == is_null(c.self, j), Or(is_null(_R, k), same)))
                return And(is_null(_R, k) == is_null(c.self, j), Or(is_null(_R, k), same))
            return [('one-slot-per-index', t.length == idx.n),
                    ('slot-k-is-element-indices-k', forall('int', lambda k: Implies(And(k >= 0, k < idx.n), slot_ok(k))))]
        pidx = t.indices
        vals = pidx.values
        out = [('takes-from-this-array', SBool(t.source._rec is rep_of(c.self)._rec)),
               ('one-slot-per-index', vals.n == idx.n)]
        if fill:
            m = pidx.mask
            out.append(('slot-k-is-element-indices-k-or-missing', forall('int', lambda k: Implies(
                And(k >= 0, k < idx.n), And(vals[k] == idx[k], m[k] == (idx[k] < 0))))))
        else:
            out.append(('no-fill-mask', SBool(isinstance(pidx._rec.fields['mask'], SNone))))
            out.append(('slot-k-is-element-indices-k', forall('int', lambda k: Implies(
                And(k >= 0, k < idx.n), vals[k] == norm(k)))))
        return out

    def gen(rng, config):
        me = TakeSelf(1).gen(rng, config)
        want_long = rng.random() < 0.75
        for _ in range(20):
            if not want_long or me['fields']['listarray']['fields']['length']['v'] >= 3:
                break
            me = TakeSelf(1).gen(rng, config)
        n = me['fields']['listarray']['fields']['length']['v']
        k = rng.choice([0, 1, 2, 3, 4, 5])
        fill = bool(config.get('allow_fill'))
        if n == 0:
            idx = [rng.choice([-1, 0]) for _ in range(k)]
        else:
            mode = rng.choice(['random', 'sorted-repeats', 'almost-run', 'almost-run', 'bad'])
            if mode == 'almost-run':
                k = rng.randint(3, max(3, n))
            lo = -1 if fill else -n
            idx = [rng.randint(lo, n - 1) for _ in range(k)]
            if mode == 'sorted-repeats':
                idx = sorted(rng.randint(0, n - 1) for _ in range(k))
            elif mode == 'almost-run' and k >= 3 and n >= k:
                a = rng.randint(0, n - k)
                idx = list(range(a, a + k))
                j = rng.randint(1, k - 2)
                idx[j] = idx[j - 1]
            elif mode == 'bad' and k:
                idx[rng.randrange(k)] = rng.choice([n, n + 1, -n - 1, -2])
        return [me, {'k': 'array', 'dtype': 'int64', 'shape': [len(idx)], 'data': idx},
                {'k': 'bool', 'v': fill}, {'k': 'none'}]

    reg.add(Contract(BASE + '::GeometryArray.take', params, returns=None, requires=req, ensures=ens, raises=raises,
                     modifies=('indices',), configs=cfgs, props=('C16',), gen=gen,
                     note='pyarrow ListArray.take assumed; negative indices are normalised in place in the caller\'s array'))
