"""GeometryArray.take (C16): index validation and normalisation, relative to the assumed pyarrow contract
`ListArray.take(indices)` = the array whose slot k is slot indices[k] of the source (null where the index is
null).  Errors are part of the contract (pandas expects them): IndexError for indices out of bounds or a
non-empty take from an empty array, ValueError for indices < -1 with allow_fill or a non-NA fill value."""
import z3

from pyvc.contracts import Arr, Bool, Const, Contract, Int, NoneSort, Rec, Sort
from pyvc.values import (NONE, SBool, SInt, SNone, SRecord, SStr, Unsupported, And, Implies, Ite, Not, Or, exists, forall)
from .glue_rep import ListGeomArray, OUT, rep_of, vals_of
from .glue_polygon import is_null

BASE = 'spatialpandas/geometry/base.py'


class TakeSelf(ListGeomArray):
    def make(self, state, name):
        me, a = super().make(state, name)
        rep = me.fields['listarray']

        def take(eng, s, fr, obj, args, kwargs, lineno):
            return SRecord('ListArrayTake', {'source': obj, 'indices': args[0], 'length': args[0].fields['length']})
        rep.fields['m:take'] = take
        me.fields['dtype'] = SStr('dtype')
        return me, a


def _py_slice(n, start, stop):
    """(first position, length) selected by the step-1 slice start:stop of a sequence of length n (python semantics;
    an omitted end is None)"""
    def norm(v, default):
        if v is None:
            return default
        return Ite(v < 0, Ite(v + n < 0, SInt(0), v + n), Ite(v > n, n, v))
    a, b = norm(start, SInt(0)), norm(stop, n)
    return a, Ite(b > a, b - a, SInt(0))


class SliceSelf(TakeSelf):
    """the array with the assumed pyarrow contracts of `data[slice]` (python slice semantics, step 1) and
    `data.slice(offset, length)` (requires 0 <= offset <= len and length >= 0: pyarrow raises otherwise; the
    window is clipped at the end): both return the window (first, length) of the source"""

    def make(self, state, name):
        me, a = super().make(state, name)
        rep = me.fields['listarray']

        def window(obj, first, length):
            return SRecord('ListArrayTake', {'source': obj, 'first': first, 'length': length, 'window': SBool(True)})

        def getitem(eng, s, fr, obj, args, kwargs, lineno):
            key = args[0]
            if not (isinstance(key, SRecord) and key.cls == 'slice'):
                raise Unsupported("pyarrow subscript other than a slice")
            stp = key.fields['step']
            if not (isinstance(stp, SNone) or (isinstance(stp, SInt) and stp.concrete and stp.v == 1)):
                raise Unsupported("pyarrow slice with a step")
            g = lambda v: None if isinstance(v, SNone) else v
            first, length = _py_slice(obj.fields['length'], g(key.fields['start']), g(key.fields['stop']))
            return window(obj, first, length)

        def slice_(eng, s, fr, obj, args, kwargs, lineno):
            n = obj.fields['length']
            off = args[0] if args else kwargs.get('offset', SInt(0))
            ln = args[1] if len(args) > 1 else kwargs.get('length', NONE)
            eng.oblige(fr, s, 'pre', 'pyarrow.slice-offset-in-range', And(off >= 0, off <= n), lineno)
            if isinstance(ln, SNone):
                return window(obj, off, n - off)
            eng.oblige(fr, s, 'pre', 'pyarrow.slice-length-non-negative', ln >= 0, lineno)
            return window(obj, off, Ite(ln > n - off, n - off, ln))
        rep.fields['m:__getitem__'] = getitem
        rep.fields['m:slice'] = slice_
        return me, a


def register_getitem(reg):
    """GeometryArray.__getitem__ for slice keys with step None / 1 (C16): the result is of the same class and wraps
    exactly the window of the source that python's slice semantics define - start after stop is the empty selection,
    never an error"""
    cfgs = [{'levels': 1, 'start': a, 'stop': b, 'step': c} for a in ('none', 'int') for b in ('none', 'int')
            for c in ('none', 'one')]

    class SliceKey(Sort):
        """a python slice object with step None / 1; slice.indices(n) has python's (exactly specified) semantics"""

        def __init__(self, cfg):
            self.cfg = cfg

        def make(self, state, name):
            from pyvc.contracts import make_symbolic
            from pyvc.values import STuple
            cfg = self.cfg
            rec, a = make_symbolic(Rec('slice', start=Int() if cfg['start'] == 'int' else NoneSort(),
                                       stop=Int() if cfg['stop'] == 'int' else NoneSort(),
                                       step=Int(conc=1) if cfg['step'] == 'one' else NoneSort()), state, name)

            def indices(eng, s, fr, obj, args, kwargs, lineno):
                n = args[0]
                g = lambda v: None if isinstance(v, SNone) else v
                norm = lambda v, d: d if v is None else Ite(v < 0, Ite(v + n < 0, SInt(0), v + n), Ite(v > n, n, v))
                return STuple([norm(g(obj.fields['start']), SInt(0)), norm(g(obj.fields['stop']), n), SInt(1)])
            rec.fields['m:indices'] = indices
            return rec, a

    def params(cfg):
        return [('self', SliceSelf(1)), ('item', SliceKey(cfg))]

    def ens(c, r):
        n = rep_of(c.self).length
        start = c.item.start if c.config['start'] == 'int' else None
        stop = c.item.stop if c.config['stop'] == 'int' else None
        first, length = _py_slice(n, start, stop)
        t = r.data
        if 'source' not in t._rec.fields:
            # a real result (concrete replay / witness search): slot k holds element first + k of the source
            class _R:
                listarray = t
            rv, sv = vals_of(_R), vals_of(c.self)

            def slot_ok(k):
                j = first + k
                a0, a1 = OUT(_R, 1, k), OUT(_R, 1, k + 1)
                b0, b1 = OUT(c.self, 1, j), OUT(c.self, 1, j + 1)
                same = And(a1 - a0 == b1 - b0, forall('int', lambda q: Implies(And(q >= 0, q < a1 - a0), rv[a0 + q].same(sv[b0 + q]))))
                return And(is_null(_R, k) == is_null(c.self, j), Or(is_null(_R, k), same))
            return [('length-as-python-defines', t.length == length),
                    ('slot-k-is-element-first-plus-k', forall('int', lambda k: Implies(And(k >= 0, k < length), slot_ok(k))))]
        return [('window-of-this-array', SBool(t.source._rec is rep_of(c.self)._rec)),
                ('first-as-python-defines', Or(length == 0, t.first == first)),
                ('length-as-python-defines', t.length == length)]

    def gen(rng, config):
        me = TakeSelf(1).gen(rng, config)
        for _ in range(20):
            if me['fields']['listarray']['fields']['length']['v'] >= 3 or rng.random() < 0.2:
                break
            me = TakeSelf(1).gen(rng, config)
        n = me['fields']['listarray']['fields']['length']['v']
        pick = lambda: rng.randint(-n - 2, n + 2)
        f = {'start': {'k': 'int', 'v': pick()} if config['start'] == 'int' else {'k': 'none'},
             'stop': {'k': 'int', 'v': pick()} if config['stop'] == 'int' else {'k': 'none'},
             'step': {'k': 'int', 'v': 1} if config['step'] == 'one' else {'k': 'none'}}
        return [me, {'k': 'record', 'cls': 'slice', 'fields': f}]

    reg.add(Contract(BASE + '::GeometryArray.__getitem__', params, returns=None, ensures=ens, configs=cfgs, props=('C16',),
                     gen=gen, note='slice keys with step None / 1; pyarrow __getitem__(slice) and slice(offset, length) assumed'))


def register(reg):
    register_getitem(reg)
    cfgs = [{'levels': 1, 'allow_fill': f} for f in (False, True)]

    def params(cfg):
        return [('self', TakeSelf(1)), ('indices', Arr('int', 'int64')), ('allow_fill', Const(bool(cfg.get('allow_fill', False)))),
                ('fill_value', NoneSort())]

    def req(c):
        return [('unit-stride', c.indices.stride == 1)]

    def conds(c):
        n = rep_of(c.self).length
        idx = c.indices
        fill = bool(c.config['allow_fill'])
        any_ge0 = exists('int', lambda k: And(k >= 0, k < idx.n, idx[k] >= 0))
        empty_err = And(n == 0, idx.n > 0, SBool(True) if not fill else any_ge0)
        too_big = exists('int', lambda k: And(k >= 0, k < idx.n, idx[k] >= n))
        too_small = exists('int', lambda k: And(k >= 0, k < idx.n, idx[k] < -n)) if not fill else SBool(False)
        index_err = Or(empty_err, too_big, too_small)
        value_err = And(Not(index_err), exists('int', lambda k: And(k >= 0, k < idx.n, idx[k] < -1))) if fill else SBool(False)
        return index_err, value_err

    def raises(c):
        ie, ve = conds(c)
        return [('IndexError', ie), ('ValueError', ve)]

    def ens(c, r):
        n = rep_of(c.self).length
        idx = c.indices
        fill = bool(c.config['allow_fill'])
        t = r.data
        norm = lambda k: Ite(idx[k] < 0, idx[k] + n, idx[k])
        if 'source' not in t._rec.fields:
            # a real result (concrete replay / witness search): state the same thing over the element views -
            # slot k of the result holds exactly the coordinates of element indices[k] of the source, or is missing
            class _R:
                listarray = t
            rv, sv = vals_of(_R), vals_of(c.self)

            def slot_ok(k):
                j = norm(k)
                a0, a1 = OUT(_R, 1, k), OUT(_R, 1, k + 1)
                b0, b1 = OUT(c.self, 1, j), OUT(c.self, 1, j + 1)
                same = And(a1 - a0 == b1 - b0, forall('int', lambda q: Implies(And(q >= 0, q < a1 - a0), rv[a0 + q].same(sv[b0 + q]))))
                if fill:
                    return Ite(idx[k] < 0, is_null(_R, k), And(is_null(_R, k) == is_null(c.self, j), Or(is_null(_R, k), same)))
                return And(is_null(_R, k) == is_null(c.self, j), Or(is_null(_R, k), same))
            return [('one-slot-per-index', t.length == idx.n),
                    ('slot-k-is-element-indices-k', forall('int', lambda k: Implies(And(k >= 0, k < idx.n), slot_ok(k))))]
        pidx = t.indices
        vals = pidx.values
        out = [('takes-from-this-array', SBool(t.source._rec is rep_of(c.self)._rec)),
               ('one-slot-per-index', vals.n == idx.n)]
        if fill:
            m = pidx.mask
            out.append(('slot-k-is-element-indices-k-or-missing', forall('int', lambda k: Implies(
                And(k >= 0, k < idx.n), And(vals[k] == idx[k], m[k] == (idx[k] < 0))))))
        else:
            out.append(('no-fill-mask', SBool(isinstance(pidx._rec.fields['mask'], SNone))))
            out.append(('slot-k-is-element-indices-k', forall('int', lambda k: Implies(
                And(k >= 0, k < idx.n), vals[k] == norm(k)))))
        return out

    def gen(rng, config):
        me = TakeSelf(1).gen(rng, config)
        want_long = rng.random() < 0.75
        for _ in range(20):
            if not want_long or me['fields']['listarray']['fields']['length']['v'] >= 3:
                break
            me = TakeSelf(1).gen(rng, config)
        n = me['fields']['listarray']['fields']['length']['v']
        k = rng.choice([0, 1, 2, 3, 4, 5])
        fill = bool(config.get('allow_fill'))
        if n == 0:
            idx = [rng.choice([-1, 0]) for _ in range(k)]
        else:
            mode = rng.choice(['random', 'sorted-repeats', 'almost-run', 'almost-run', 'bad'])
            if mode == 'almost-run':
                k = rng.randint(3, max(3, n))
            lo = -1 if fill else -n
            idx = [rng.randint(lo, n - 1) for _ in range(k)]
            if mode == 'sorted-repeats':
                idx = sorted(rng.randint(0, n - 1) for _ in range(k))
            elif mode == 'almost-run' and k >= 3 and n >= k:
                a = rng.randint(0, n - k)
                idx = list(range(a, a + k))
                j = rng.randint(1, k - 2)
                idx[j] = idx[j - 1]
            elif mode == 'bad' and k:
                idx[rng.randrange(k)] = rng.choice([n, n + 1, -n - 1, -2])
        return [me, {'k': 'array', 'dtype': 'int64', 'shape': [len(idx)], 'data': idx},
                {'k': 'bool', 'v': fill}, {'k': 'none'}]

    reg.add(Contract(BASE + '::GeometryArray.take', params, returns=None, requires=req, ensures=ens, raises=raises,
                     modifies=('indices',), configs=cfgs, props=('C16',), gen=gen,
                     note='pyarrow ListArray.take assumed; negative indices are normalised in place in the caller\'s array'))
