"""Which contract modules decide which property, with the per-property level and trusted base."""

COMMON_TRUST = [
    "pyvc itself (VC generator, encodings of the numba subset, DESIGN 3.2) and the SMT solvers z3 5.1 / cvc5 / z3 4.8",
    "extraction drops decorators, docstrings, comments, annotations: numba is assumed to compile the function to the "
    "semantics of DESIGN 3.2 (no bounds checks, int64, IEEE comparisons, python min/max)",
]
MATH_ARITH = ("machine arithmetic treated as mathematical: + - * / on finite floats are exact reals; int64 index "
              "arithmetic is unbounded (offsets < 2^31 by well-formedness)")

PLAN = {
    'C07': dict(
        modules=['c07_hilbert'], level='proof',
        timeout={'quick': 120, 'thorough': 900},
        trusted_base=COMMON_TRUST,
        assumptions=["no arithmetic assumption: integers are 64-bit two's-complement bit-vectors with numba's operator "
                     "semantics (>> arithmetic, // and % floor, << wrapping)",
                     "inputs are int64 values (numba types python ints as int64)",
                     "vectorised entry points (coordinates_from_distances, distances_from_coordinates) are under contract "
                     "relative to the scalar contracts"],
        explanation="per configuration (p,n) all loops are unrolled over the operand width, so each configuration is "
                    "decided for all inputs; quick tier runs a subset of configurations, thorough all 113",
    ),
    'C14': dict(
        modules=['c14_measures'], level='proof',
        trusted_base=COMMON_TRUST,
        assumptions=[MATH_ARITH, "sqrt is an uninterpreted function: 'exact' means equal as real expressions; IEEE "
                     "rounding of the sums is not verified", "area contracts are for finite coordinates"],
    ),
    'C15': dict(
        modules=['c14_measures', 'c15_orient'], level='proof',
        trusted_base=COMMON_TRUST + ["assumed numpy/numba contracts: np.nonzero / boolean-mask selection (increasing "
                                     "positions of the true cells), fancy-index store, overlap-safe strided slice "
                                     "assignment (right-hand side read before the store)"],
        assumptions=[MATH_ARITH, "coordinates finite"],
    ),
    'C02': dict(
        modules=['c14_measures', 'c02_point'], level='proof',
        trusted_base=COMMON_TRUST + ["assumed numba contract: min/max over a non-empty finite 1-d array return its least / "
                                     "greatest element; np.any over an element-wise comparison = exists"],
        assumptions=[MATH_ARITH, "coordinates finite",
                     "T1 (mathematical fact, not proved here): for a valid polygon (holes inside the shell, wound "
                     "opposite to it) and a point on no ring, strictly inside <=> winding number != 0"],
    ),
    'C03': dict(
        modules=['c03_rtree'], level='other',
        trusted_base=COMMON_TRUST,
        assumptions=[MATH_ARITH],
        explanation="index arithmetic (_left_child/_right_child/_parent/_leaf_start/_start_index/_stop_index incl. "
                    "termination) and the tiling lemmas are proved; build and query worklist (python lists of symbolic "
                    "length) are outside the engine's subset and covered by the run-time checked API contract (bounded)",
    ),
    'C08': dict(
        modules=['c08_hilbert_distance'], level='other',
        trusted_base=COMMON_TRUST + ["assumed numpy contracts: element-wise arithmetic with a scalar, astype(int64) = "
                                     "truncation of finite values, boolean-mask store"],
        assumptions=[MATH_ARITH, "distances_from_coordinates is used through an assumed math-mode view of the "
                     "bit-vector function verified under C07"],
        explanation="numeric core (_data2coord, _distances_from_bounds) proved; GeometryArray.hilbert_distance (list/tuple "
                    "handling, frame) covered by the run-time checked contract (bounded)",
    ),
    'C13': dict(
        modules=['c13_bounds'], level='proof',
        trusted_base=COMMON_TRUST,
        assumptions=[MATH_ARITH],
    ),
}
