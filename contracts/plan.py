"""Which contract modules decide which property, with the per-property level and trusted base."""

COMMON_TRUST = [
    "pyvc itself (VC generator, encodings of the numba subset, DESIGN 3.2) and the SMT solvers z3 5.1 / cvc5 / z3 4.8",
    "extraction drops decorators, docstrings, comments, annotations: numba is assumed to compile the function to the "
    "semantics of DESIGN 3.2 (no bounds checks, int64, IEEE comparisons, python min/max); cross-checked on every run "
    "by evaluating each contract on the real compiled function for generated inputs",
]
MATH_ARITH = ("machine arithmetic treated as mathematical: + - * / on finite floats are exact reals; int64 index "
              "arithmetic is unbounded (offsets < 2^31 by well-formedness)")
NUMPY_TRUST = ("assumed numpy/numba contracts (DESIGN App. A): element-wise operations, boolean-mask / fancy indexing and "
               "stores, np.nonzero, np.any, slices with numpy clamping, overlap-safe slice assignment, min/max over a "
               "non-empty array")
RTC = ('rtc_stage', 'run_rtc')
RTC_NOTE = ("glue layer (methods on pyarrow-backed arrays, pandas / dask objects) is outside the verifier's subset: covered by "
            "contracts evaluated at run time on the real code for generated inputs (rtc/, reference = exact rational oracle "
            "over the abstract view). This is a bounded stand-in: it is reported under coverage.run_rtc and never counted in "
            "obligations/discharged")
T1 = ("T1/T2 (mathematical facts, not proved here): for a valid polygon (holes inside the shell, wound opposite to it) a point on "
      "no ring is inside <=> winding number != 0, and the winding number is constant on a connected set meeting no ring")

TI_NOTE = ("the traversal contract of _maybe_intersects_ranges assumes the tree invariant TI as its precondition (tree length 2*2^D-1, "
           "page size >= 1, rows fit the leaves, every node box encloses the NaN-free rows among its keys); TI is established by "
           "_build_hilbert_rtree, which is outside the subset - it is evaluated on real built trees by the bounded stand-in "
           "(rtc rtree.tree-invariant), not proved; query coordinates are not NaN")

PLAN = {
    'C01': dict(
        modules=['c14_measures', 'c15_orient', 'c16_isnull', 'c02_point', 'c13_bounds', 'c01_box', 'c01_lines', 'c01_polys', 'glue_rep', 'glue_polygon', 'glue_wrappers', 'glue_fixed'], level='other', stages=[RTC],
        trusted_base=COMMON_TRUST + [NUMPY_TRUST], assumptions=[MATH_ARITH, 'coordinates finite', T1, RTC_NOTE],
        explanation="proved: triangle_orientation, segments_intersect_1d, segments_intersect (under its call-site "
                    "precondition), point_intersects_polygon (= winding number), total_bounds_interleaved, "
                    "multipoints_intersect_bounds; the line / multiline drivers against the point-set predicate LINE_MEETS "
                    "(a vertex in the box or a segment meeting it) and the polygon / multipolygon drivers against POLY_MEETS "
                    "(the boundary meets the box or a box corner has non-zero winding number; valid polygons, boxes of "
                    "positive width and height), incl. the bounding-box reject and the slab shortcut (discrete intermediate "
                    "value lemma, winding number of closed rings beside a point); the five list-array wrappers and "
                    "PointArray.intersects_bounds (row k = the verdict for exactly element inds[k], any array offset); "
                    "scalar forms and the end-to-end answer against the exact oracle by the run-time checked contract (bounded)",
    ),
    'C02': dict(
        modules=['c14_measures', 'c02_point', 'glue_fixed', 'c15_orient', 'c16_isnull', 'c13_bounds', 'c01_box'], level='other', stages=[RTC],
        trusted_base=COMMON_TRUST + [NUMPY_TRUST], assumptions=[MATH_ARITH, 'coordinates finite', T1, RTC_NOTE],
        explanation="proved: segment_intersects_point, point_intersects_polygon, _perform_intersects_polygon, "
                    "_perform_intersects_multipoint, most of _perform_intersects_line (four invariants by stand-in); "
                    "PointArray.intersects for polygon-like, multipoint and point shapes with its helpers "
                    "(_intersects_polygon / _intersects_multipoint / _intersects_point: inds handling, exact equality of "
                    "points, a missing point never intersects); scalar Point forms, line shapes and the end-to-end answer "
                    "against the exact oracle (incl. points an ulp apart) by the run-time checked contract (bounded)",
    ),
    'C03': dict(
        modules=['c03_rtree', 'c03_query'], level='other', stages=[RTC],
        trusted_base=COMMON_TRUST, assumptions=[MATH_ARITH, RTC_NOTE, TI_NOTE],
        explanation="proved: index arithmetic (_left_child/_right_child/_parent/_leaf_start/_start_index/_stop_index incl. "
                    "termination), the tiling lemmas, and the query traversal _maybe_intersects_ranges for d in {1,2,3} "
                    "(worklist and result lists of symbolic length): relative to the tree invariant TI (perfect tree; every "
                    "node box encloses the NaN-free rows of its key range) no row meeting the query is lost, every NaN-free "
                    "row of a covered range lies inside the query, and all recorded ranges are pairwise disjoint; _valid_rows; for the "
                    "assembly functions intersects / covers_overlaps: every write into the result buffers is in bounds (numba "
                    "does not check) and the leaf-level masks are exact (outside <=> NaN row or no overlap, covers <=> inside). TI itself "
                    "(established by the build, which uses argsort / nanmin over list comprehensions - outside the subset), "
                    "that the ids written are exactly the keys of the selected rows, each once (mask compaction), and the API are covered by the run-time checked contracts "
                    "(bounded): TI on real built trees, random box sets incl. NaN rows, d in 1..3, page sizes 1..n+1, p in 1..31",
    ),
    'C04': dict(
        modules=['c13_bounds', 'c14_measures', 'c07_vector', 'c08_hilbert_distance', 'glue_rep', 'glue_misc', 'c03_rtree', 'c03_query'], level='other', stages=[RTC],
        trusted_base=COMMON_TRUST, assumptions=[RTC_NOTE, TI_NOTE],
        explanation="proved: the R-tree query traversal the indexed path relies on (_maybe_intersects_ranges: nothing lost, covered rows inside the box, no row twice; relative to the tree invariant); _BaseCoordinateIndexer._get_bounds for every shape of key (scalar / slice with each combination of "
                    "omitted ends, with and without an index; step rejected); the selection itself (_perform_get_item: "
                    "pandas iloc / mask, R-tree candidates) by the bounded stand-in against the exact C01 oracle",
    ),
    'C05': dict(
        modules=['c14_measures', 'c02_point', 'glue_fixed', 'c15_orient', 'c16_isnull', 'c13_bounds', 'c01_box'], level='other', stages=[RTC],
        trusted_base=COMMON_TRUST + [NUMPY_TRUST], assumptions=[MATH_ARITH, 'coordinates finite', RTC_NOTE],
        explanation="proved: the exact test sjoin applies to the index candidates - PointArray.intersects(shape, inds) and its "
                    "helpers (row k of the mask belongs to position inds[k], whatever the order and length of inds; a missing "
                    "point never matches) over the proved point kernels; sjoin itself is pandas merge glue over C02/C03/C13 "
                    "and is decided by the bounded stand-in: pair table, index labels and suffix handling for how in "
                    "{inner,left,right}, pandas and Dask left frames, against the exact C02 oracle",
    ),
    'C06': dict(
        modules=['glue_dask'], level='other', stages=[RTC],
        trusted_base=COMMON_TRUST, assumptions=[RTC_NOTE, 'synchronous dask scheduler'],
        explanation="dask glue; decided only by the bounded stand-in: cx, cx_partitions, bounds, total_bounds, area, "
                    "intersects_bounds on from_pandas / parquet frames with 1..n partitions vs the pandas result",
    ),
    'C07': dict(
        modules=['c07_hilbert', 'c07_vector'], level='proof',
        timeout={'quick': 120, 'thorough': 900},
        trusted_base=COMMON_TRUST,
        assumptions=["no arithmetic assumption: integers are 64-bit two's-complement bit-vectors with numba's operator "
                     "semantics (>> arithmetic, // and % floor, << wrapping)",
                     "inputs are int64 values (numba types python ints as int64)",
                     "the vectorised entry points (coordinates_from_distances, distances_from_coordinates) are proved to be "
                     "row-wise applications of the scalar functions, which they see through a math-mode view "
                     "(uninterpreted ENC_n / DEC_n,j with their ranges) of the bit-vector contracts"],
        explanation="per configuration (p,n) all loops are unrolled over the operand width, so each configuration is "
                    "decided for all inputs; quick tier runs a subset of configurations, thorough all 113; the vectorised "
                    "entry points are proved to apply the scalar functions row by row (any length, any integer coordinate "
                    "dtype, result int64, caller's array unmodified)",
    ),
    'C08': dict(
        modules=['c13_bounds', 'c14_measures', 'c07_vector', 'c08_hilbert_distance', 'glue_rep', 'glue_misc', 'c03_rtree', 'c03_query'], level='other', stages=[RTC],
        trusted_base=COMMON_TRUST + [NUMPY_TRUST],
        assumptions=[MATH_ARITH, "distances_from_coordinates is used through an assumed math-mode view of the "
                     "bit-vector function verified under C07", RTC_NOTE],
        explanation="proved: _data2coord (cell = clamp(trunc(scaled)), with the float -> int64 cast modelled faithfully: "
                    "out-of-range values are unconstrained), distances_from_coordinates (row-wise), _distances_from_bounds, and "
                    "GeometryArray.hilbert_distance on list arrays for total_bounds given as None / tuple / list / ndarray "
                    "(value = cell of the bbox centre, widening, argument unmodified), relative to the pyarrow representation "
                    "contracts; fixed (point) arrays and the Series wrapper by the run-time checked contract (bounded)",
    ),
    'C09': dict(
        modules=['glue_dask'], level='other', stages=[RTC],
        trusted_base=COMMON_TRUST, assumptions=[RTC_NOTE, 'synchronous dask scheduler'],
        explanation="pack_partitions is dask shuffle glue; decided only by the bounded stand-in (row conservation, order, "
                    "partition count, distance of the ACTIVE geometry)",
    ),
    'C12': dict(
        modules=['glue_dask'], level='other', stages=[RTC],
        trusted_base=COMMON_TRUST, assumptions=[RTC_NOTE, 'local filesystem, synchronous dask scheduler'],
        explanation="parquet metadata glue; decided only by the bounded stand-in: partition_bounds per loaded partition for "
                    "every geometry column (2, 3, 12 partitions; datasets written by to_parquet and by "
                    "pack_partitions_to_parquet), pruning never loses an intersecting row",
    ),
    'C13': dict(
        modules=['c13_bounds', 'c14_measures', 'glue_rep', 'glue_dask', 'glue_fixed'], level='other', stages=[RTC],
        trusted_base=COMMON_TRUST, assumptions=[MATH_ARITH, RTC_NOTE],
        explanation="proved: the three bounds kernels for all lengths and all float values incl. NaN/inf (declarative reading "
                    "of the spec by inductive lemmas), the buffer layer of list arrays (buffer_values, buffer_offsets, "
                    "flat_values, buffer_outer_offsets, for 1-3 offset levels and any array offset), "
                    "GeometryListArray.bounds / total_bounds / total_bounds_x / total_bounds_y relative to the pyarrow "
                    "representation contracts, and GeometryFixedArray.flat_values / .bounds (row i = the finite coordinates of "
                    "point i, NaN row iff missing); fixed-array total_bounds, series / dask / parquet / sindex wrappers by the "
                    "run-time checked contract (bounded)",
    ),
    'C14': dict(
        modules=['c13_bounds', 'c14_measures', 'c15_orient', 'c16_isnull', 'c02_point', 'c01_box', 'c01_lines', 'c01_polys', 'glue_rep', 'glue_polygon', 'glue_wrappers'], level='other', stages=[RTC],
        trusted_base=COMMON_TRUST,
        assumptions=[MATH_ARITH, "sqrt is an uninterpreted function: 'exact' means equal as real expressions; IEEE "
                     "rounding of the sums is not verified", "area contracts are for finite coordinates", RTC_NOTE],
        explanation="compute_line_length, compute_area (cells of the coordinate buffer count as narrow until widened by "
                    "np.float64 / float: arithmetic on an unwidened cell is outside the model, i.e. undecided) and the three "
                    "prange map kernels (incl. iteration independence) are proved, and the array wrappers LineArray / MultiLineArray / PolygonArray / MultiPolygonArray .length and "
                    "PolygonArray / MultiPolygonArray .area (row i = measure of element i, NaN iff missing, any array offset); "
                    "scalar forms, boundary and point / multipoint arrays by the run-time checked contract (bounded)",
    ),
    'C15': dict(
        modules=['c13_bounds', 'c14_measures', 'c15_orient', 'c16_isnull', 'c02_point', 'c01_box', 'glue_rep', 'glue_polygon'], level='other', stages=[RTC],
        trusted_base=COMMON_TRUST + [NUMPY_TRUST],
        assumptions=[MATH_ARITH, "coordinates finite", RTC_NOTE],
        explanation="proved: orient_polygons (ring-wise identity-or-reverse, decided by the signed area and the shell/hole "
                    "role, zero-area rings untouched, cells outside rings untouched, all stores in bounds) and "
                    "PolygonArray.oriented / MultiPolygonArray.oriented relative to the pyarrow representation contracts "
                    "(offsets and missingness kept, kernel preconditions established for every array offset, input buffers "
                    "unmodified); the two segment tests behind every box intersection (segments_intersect_1d, "
                    "segments_intersect) against direction-symmetric specifications; idempotence, the scalar view and "
                    "unchanged intersection results by the run-time checked contract (bounded)",
    ),
    'C16': dict(
        modules=['c16_isnull', 'c13_bounds', 'c14_measures', 'c15_orient', 'c02_point', 'c01_box', 'c01_lines', 'c01_polys', 'glue_rep', 'glue_polygon', 'glue_wrappers', 'glue_take', 'glue_fixed'], level='other', stages=[RTC],
        trusted_base=COMMON_TRUST, assumptions=[RTC_NOTE],
        explanation="proved: _perform_extract_isnull_bytemap (bit (offset+i) of the validity bitmap, for every offset), the "
                    "buffer layer, GeometryArray.take (index validation / normalisation, error cases), GeometryArray.__getitem__ "
                    "for slice keys with step None / 1 (the window python's slice semantics define, start after stop = empty, "
                    "relative to the assumed pyarrow __getitem__(slice) / slice(offset, length) contracts whose "
                    "preconditions are obligations at the call), the length / area / "
                    "intersects_bounds / bounds wrappers over the abstract view (results depend on element values only, for "
                    "every array offset); __getitem__ / concat / copy / pickle / iteration and view-determinacy end to end by "
                    "the run-time checked contract over random derivation histories (bounded)",
    ),
    'C17': dict(
        modules=['c13_bounds', 'c14_measures', 'c15_orient', 'c16_isnull', 'c02_point', 'c01_box', 'c01_lines', 'c01_polys', 'glue_rep', 'glue_polygon', 'glue_wrappers', 'glue_fixed'], level='other', stages=[RTC],
        trusted_base=COMMON_TRUST, assumptions=[MATH_ARITH, RTC_NOTE],
        explanation="inertness clauses that are inside proved contracts: an empty coordinate range gives a NaN bounds row and "
                    "contributes nothing to total bounds (C13 spec + lemmas), missing rows are skipped by the map kernels "
                    "(C14); everything else (predicates, cx, sjoin, R-tree, Dask) by the run-time checked contracts (bounded)",
    ),
    'C20': dict(
        modules=[], level='other', stages=[RTC], stand_in_only=True,
        trusted_base=COMMON_TRUST, assumptions=[RTC_NOTE],
        explanation="pandas subclassing glue; decided only by the bounded stand-in: set_geometry / default, propagation "
                    "through copy, row selection, sort, column subset, cx, pickle, concat, head; Dask partitions and compute; "
                    "read_parquet_dask(geometry=)",
    ),
}
