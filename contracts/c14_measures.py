"""C14 - length / area kernels (measures.py) and the element map kernels (baselist.py).

Spec functions (mathematical reals, sqrt uninterpreted):
  SEGSUM(A,T,lo,hi)  = sum over consecutive vertex pairs of the line stored at [lo,hi) of
                       [all four coordinates finite] * sqrt(dx^2+dy^2)
  LINESUM(A,T,voff,O,ooff,j) = sum of SEGSUM over the first j lines given by offsets O
  TS(A,lo,m)         = sum_{k=lo,lo+2,..<m} A[k+2]*(A[k+5]-A[k+1])          (the loop's own sum)
  RING(A,lo,hi)      = 0 if hi-lo < 6 else TS(A,lo,hi-4) + A[lo]*(A[lo+3]-A[hi-3])
  RINGSUM(A,voff,O,ooff,j) = sum of RING over the first j rings
"""
import z3

from pyvc.contracts import Arr, Contract, Flt, Fn, Int, Lemma, Loop, RecSpec, Tup
from pyvc.values import (FIN, SBool, SFloat, SInt, And, Implies, Ite, Not, Or, forall, fsqrt, to_int)

P = ('C14',)
MEAS = 'spatialpandas/geometry/_algorithms/measures.py'
BL = 'spatialpandas/geometry/baselist.py'

AV = z3.ArraySort(z3.IntSort(), z3.RealSort())
AT = z3.ArraySort(z3.IntSort(), z3.IntSort())
AO = z3.ArraySort(z3.IntSort(), z3.IntSort())


def cellf(A, T, k):
    k = to_int(k)
    return SFloat(z3.Select(T, k.z()), z3.Select(A, k.z()))


def celli(O, k):
    return SInt(z3.Select(O, to_int(k).z()))


def seg_len(A, T, a, b):
    """length of the segment from vertex at index a to vertex at index b (0 if a coordinate is not finite)"""
    x0, y0, x1, y1 = cellf(A, T, a), cellf(A, T, a + 1), cellf(A, T, b), cellf(A, T, b + 1)
    allfin = And(x0.is_fin(), y0.is_fin(), x1.is_fin(), y1.is_fin())
    dx = SFloat(FIN, x1.val - x0.val)
    dy = SFloat(FIN, y1.val - y0.val)
    return Ite(allfin, fsqrt(dx * dx + dy * dy), SFloat.const(0.0))


SEGSUM = RecSpec('SEGSUM', [AV, AT, 'int', 'int'], 'real',
                 lambda self, A, T, lo, hi: Ite(hi - lo < 4, SFloat.const(0.0),
                                                self(A, T, lo, hi - 2) + seg_len(A, T, hi - 4, hi - 2)))

LINESUM = RecSpec('LINESUM', [AV, AT, 'int', AO, 'int', 'int'], 'real',
                  lambda self, A, T, voff, O, ooff, j: Ite(
                      j <= 0, SFloat.const(0.0),
                      self(A, T, voff, O, ooff, j - 1) +
                      SEGSUM(A, T, voff + celli(O, ooff + j - 1), voff + celli(O, ooff + j))))

TS = RecSpec('TS', [AV, 'int', 'int'], 'real',
             lambda self, A, lo, m: Ite(
                 m <= lo, SFloat.const(0.0),
                 self(A, lo, m - 2) + SFloat(FIN, z3.Select(A, m.z()) * (z3.Select(A, (m + 3).z()) - z3.Select(A, (m - 1).z())))))


def ring_area2(A, lo, hi):
    wrap = SFloat(FIN, z3.Select(A, lo.z()) * (z3.Select(A, (lo + 3).z()) - z3.Select(A, (hi - 3).z())))
    return Ite(hi - lo < 6, SFloat.const(0.0), TS(A, lo, hi - 4) + wrap)


RINGSUM = RecSpec('RINGSUM', [AV, 'int', AO, 'int', 'int'], 'real',
                  lambda self, A, voff, O, ooff, j: Ite(
                      j <= 0, SFloat.const(0.0),
                      self(A, voff, O, ooff, j - 1) +
                      ring_area2(A, voff + celli(O, ooff + j - 1), voff + celli(O, ooff + j))))


def offsets_ok(o, v, need_first_vertex=False):
    """offsets lie inside the values buffer, are non-decreasing, and every range has even length.
    Stated without k+1 terms under the quantifier (no matching loops): bounds and parity relative to
    o[0] per cell, monotonicity in the two-index form."""
    return And(
        forall('int', lambda k: Implies(And(k >= 0, k < o.n), And(o[k] >= 0, o[k] <= v.n, (o[k] - o[0]) % 2 == 0)),
               ),
        forall(['int', 'int'], lambda a, b: Implies(And(a >= 0, a <= b, b < o.n), o[a] <= o[b]),
               ))


def length_spec(v, o):
    return LINESUM(v.A, v.T, v.off, o.A, o.off, o.n - 1)


def area_spec(v, o):
    return RINGSUM(v.A, v.off, o.A, o.off, o.n - 1) / 2


# an abstract measure (for the map kernels): any pure function of the coordinates and offsets
MEASURE = z3.Function('MEASURE', AV, AT, z3.IntSort(), AO, z3.IntSort(), z3.IntSort(), z3.RealSort())
MEASURE_T = z3.Function('MEASURE_t', AV, AT, z3.IntSort(), AO, z3.IntSort(), z3.IntSort(), z3.IntSort())


def measure_spec(fn_name, v, o):
    """value of fn(values, offsets) for the function value named fn_name"""
    if fn_name == 'compute_line_length':
        return length_spec(v, o)
    if fn_name == 'compute_area':
        return area_spec(v, o)
    args = (v.A, v.T, v.off.z(), o.A, o.off.z(), o.n.z())
    return SFloat(MEASURE_T(*args), MEASURE(*args))


def register(reg):
    # ------------------------------------------------------------ compute_line_length
    def cll_requires(c):
        v, o = c.values, c.value_offsets
        return [('at-least-one-offset', o.n >= 1), ('unit-stride', And(v.stride == 1, o.stride == 1)),
                ('offsets-ok', offsets_ok(o, v)),
                # the function reads the first vertex of every line before looking at its length
                ('first-vertex-readable', forall('int', lambda k: Implies(And(k >= 0, k < o.n - 1), o[k] + 1 < v.n)))]

    def cll_ensures(c, r):
        return [('length', r.same(length_spec(c.values, c.value_offsets)))]

    def cll_outer(c):
        v, o = c.a.values, c.a.value_offsets
        j = c.offset_ind
        return [('range', And(j >= 0, j <= o.n - 1)),
                ('sum', c.total_len.same(LINESUM(v.A, v.T, v.off, o.A, o.off, j)))]

    def cll_inner(c):
        v, o = c.a.values, c.a.value_offsets
        j, i = c.offset_ind, c.i
        return [('range', And(j >= 0, j < o.n - 1, i >= c.start + 2, (i - c.start) % 2 == 0,
                              Or(i <= c.stop, i == c.start + 2), c.start == o[j], c.stop == o[j + 1])),
                ('sum', c.total_len.same(LINESUM(v.A, v.T, v.off, o.A, o.off, j) + SEGSUM(v.A, v.T, v.off + c.start, v.off + i))),
                ('prev-x', c.x0.same(v[i - 2])), ('prev-y', c.y0.same(v[i - 1]))]

    reg.add(Contract(MEAS + '::compute_line_length',
                     [('values', Arr('float', narrow=True)), ('value_offsets', Arr('int', 'uint32'))],
                     returns=Flt(), requires=cll_requires, ensures=cll_ensures,
                     loops={0: Loop(invariant=cll_outer, var='offset_ind'), 1: Loop(invariant=cll_inner, var='i')},
                     props=P, fuel=2, solver_opts={'arith.nl': False}))

    # ------------------------------------------------------------ compute_area
    def ca_requires(c):
        v, o = c.values, c.value_offsets
        return [('at-least-one-offset', o.n >= 1), ('unit-stride', And(v.stride == 1, o.stride == 1)),
                ('offsets-ok', offsets_ok(o, v))]

    def ca_ensures(c, r):
        return [('area', r.same(area_spec(c.values, c.value_offsets)))]

    def ca_outer(c):
        v, o = c.a.values, c.a.value_offsets
        j = c.offset_ind
        return [('range', And(j >= 0, j <= o.n - 1)),
                ('sum', c.area.same(RINGSUM(v.A, v.off, o.A, o.off, j)))]

    def ca_inner(c):
        v, o = c.a.values, c.a.value_offsets
        j, k = c.offset_ind, c.k
        return [('range', And(j >= 0, j < o.n - 1, k >= c.start, k <= c.stop - 4, (k - c.start) % 2 == 0,
                              c.start == o[j], c.stop == o[j + 1], c.stop - c.start >= 6)),
                ('sum', c.area.same(RINGSUM(v.A, v.off, o.A, o.off, j) + TS(v.A, v.off + c.start, v.off + k)))]

    reg.add(Contract(MEAS + '::compute_area',
                     [('values', Arr('float', finite=True, narrow=True)), ('value_offsets', Arr('int', 'uint32'))],
                     returns=Flt(), requires=ca_requires, ensures=ca_ensures,
                     loops={0: Loop(invariant=ca_outer, var='offset_ind'), 1: Loop(invariant=ca_inner, var='k')},
                     props=P, fuel=2, solver_opts={'arith.nl': False}, note='coordinates finite (area of rings with non-finite vertices is not specified)'))

    # ------------------------------------------------------------ abstract measure + map kernels
    def meas_requires(c):
        v, o = c.values, c.value_offsets
        return [('at-least-one-offset', o.n >= 1), ('unit-stride', And(v.stride == 1, o.stride == 1)),
                ('offsets-ok', offsets_ok(o, v)),
                ('first-vertex-readable', forall('int', lambda k: Implies(And(k >= 0, k < o.n - 1), o[k] + 1 < v.n)))]

    reg.add(Contract('<abstract>::measure', [('values', Arr('float')), ('value_offsets', Arr('int', 'uint32'))],
                     returns=Flt(), requires=meas_requires,
                     ensures=lambda c, r: [('is-MEASURE', r.same(measure_spec('measure', c.values, c.value_offsets)))],
                     trusted=True, note='(abstract function parameter of the map kernels: any pure function of its '
                                        'arguments; instantiated by compute_line_length / compute_area, whose own '
                                        'contracts imply this one)'))

    # ------------------------------------------------------------ _geometry_map_nested1/2/3
    def elem_offsets(c, depth, i):
        """the innermost offsets slice of element i (a view into the last offsets array)"""
        offs = c.value_offsets
        o0 = offs[0]
        if depth == 1:
            return o0.sub(i, 2)
        if depth == 2:
            return offs[1].sub(o0[i], o0[i + 1] + 1 - o0[i])
        o1 = offs[1]
        return offs[2].sub(o1[o0[i]], o1[o0[i + 1]] + 1 - o1[o0[i]])

    def chain_ok(c, depth):
        """offset arrays are non-decreasing and each level indexes into the next; the last into values"""
        offs = c.value_offsets
        v = c.values
        out = [('unit-stride', And(v.stride == 1, *[o.stride == 1 for o in offs])),
               ('at-least-one-offset', offs[0].n >= 1)]
        for lvl in range(depth - 1):
            a, b = offs[lvl], offs[lvl + 1]
            out.append((f'level{lvl}-indexes-level{lvl + 1}', forall('int', lambda k, a=a, b=b: Implies(
                And(k >= 0, k < a.n), And(a[k] >= 0, a[k] < b.n)))))
            out.append((f'level{lvl}-non-decreasing', forall(['int', 'int'], lambda k1, k2, a=a: Implies(
                And(k1 >= 0, k1 <= k2, k2 < a.n), a[k1] <= a[k2]))))
        last = offs[depth - 1]
        out.append(('innermost-offsets-ok', offsets_ok(last, v)))
        out.append(('first-vertex-readable', forall('int', lambda k: Implies(And(k >= 0, k < last.n - 1), last[k] + 1 < v.n))))
        return out

    def map_contract(depth):
        name = f'_geometry_map_nested{depth}'

        def req(c):
            n = c.value_offsets[0].n - 1
            return chain_ok(c, depth) + [('result-long-enough', c.result.n >= n), ('missing-long-enough', c.missing.n >= n),
                                         ('result-unit-stride', c.result.stride == 1)]

        def cell_ok(c, res, k):
            exp = measure_spec(c.raw('fn').name, c.values, elem_offsets(c, depth, k))
            return Ite(c.missing[k], res[k].same(c.result[k]), res[k].same(exp))

        def ens(c, r):
            n = c.value_offsets[0].n - 1
            return [('cells', forall('int', lambda k: Implies(And(k >= 0, k < n), cell_ok(c, c.post.result, k)))),
                    ('rest-unchanged', forall('int', lambda k: Implies(And(k >= n, k < c.result.n),
                                                                      c.post.result[k].same(c.result[k]))))]

        def inv(c):
            n = c.a.value_offsets[0].n - 1
            i = c.i
            cur = c.view(c.a.result)
            return [('range', And(i >= 0, i <= n)),
                    ('done', forall('int', lambda k: Implies(And(k >= 0, k < i), cell_ok(c.a, cur, k)))),
                    ('todo', forall('int', lambda k: Implies(And(k >= i, k < c.a.result.n), cur[k].same(c.a.result[k]))))]

        reg.add(Contract(BL + '::' + name,
                         [('fn', Fn('measure')), ('result', Arr('float')), ('values', Arr('float')),
                          ('value_offsets', Tup(*[Arr('int', 'uint32')] * depth)), ('missing', Arr('bool'))],
                         requires=req, ensures=ens, modifies=('result',),
                         loops={0: Loop(invariant=inv, var='i', prange_writes=('result',))},
                         props=P + ('C17',), fuel=1))

    for d in (1, 2, 3):
        map_contract(d)
    attach_generators(reg)


# ---------------------------------------------------------------------- input generators (witness search)

def gen_nested(rng, depth, finite, allow_empty_tail=False):
    """random (values, offsets tuple) of a list array with `depth` offset levels; every innermost range has
    at least one vertex (so the first vertex is readable)"""
    from pyvc.witness import gen_float
    n_inner = rng.choice([1, 1, 2, 3, 4])
    inner = [0]
    for _ in range(n_inner):
        inner.append(inner[-1] + 2 * rng.choice([1, 1, 2, 3, 4, 5]))
    values = [gen_float(rng, finite) for _ in range(inner[-1])]
    levels = [inner]
    for _ in range(depth - 1):
        below = len(levels[0]) - 1
        cuts = sorted(rng.sample(range(below + 1), k=min(below + 1, rng.choice([0, 1, 2])))) if below > 0 else []
        lvl = [0] + cuts + [below]
        levels.insert(0, lvl)
    arrs = [{'k': 'array', 'dtype': 'uint32', 'shape': [len(l)], 'data': l} for l in levels]
    return ({'k': 'array', 'dtype': 'float64', 'shape': [len(values)], 'data': values}, arrs)


def _map_gen(depth):
    def gen(rng, config):
        fn = rng.choice(['compute_line_length', 'compute_area'])
        values, offs = gen_nested(rng, depth, finite=(fn == 'compute_area'))
        n = offs[0]['shape'][0] - 1
        extra = rng.choice([0, 0, 1])
        result = {'k': 'array', 'dtype': 'float64', 'shape': [n + extra], 'data': ['nan'] * (n + extra)}
        missing = {'k': 'array', 'dtype': 'bool', 'shape': [n + extra], 'data': [rng.random() < 0.3 for _ in range(n + extra)]}
        return [{'k': 'func', 'name': fn}, result, values, {'k': 'tuple', 'items': offs}, missing]
    return gen


def _kernel_gen(fn):
    """inputs of the measure kernels themselves: the generic nested buffers, or - the coordinate buffer being of
    any coordinate subtype - float32 / int32 buffers of thin integer triangles far from the origin, whose shoelace
    products need up to 41 bits and largely cancel"""
    def gen(rng, config):
        if rng.random() < 0.4:
            values, offs = gen_nested(rng, 1, finite=(fn == 'compute_area'))
            return [values, offs[0]]
        vals, offs = [], [0]
        for _ in range(rng.randint(1, 3)):
            ax, ay = rng.randint(500000, 1200000), rng.randint(300000, 1000000)
            m = rng.choice([1000, 20000, 200000])
            dx, dy = rng.randint(-m, m), rng.randint(-m, m)
            ex, ey = rng.choice([(1, 0), (0, 1), (-1, 2), (3, -1), (40, 25)])
            ring = [ax, ay, ax + dx, ay + dy, ax - dx + ex, ay - dy + ey, ax, ay]
            if rng.random() < 0.5:
                ring = [c for p_ in list(zip(ring[0::2], ring[1::2]))[::-1] for c in p_]
            vals += ring
            offs.append(len(vals))
        dt = rng.choice(['float32', 'float32', 'int32', 'float64'])
        data = [float(v).hex() for v in vals] if dt.startswith('float') else vals
        return [{'k': 'array', 'dtype': dt, 'shape': [len(vals)], 'data': data},
                {'k': 'array', 'dtype': 'uint32', 'shape': [len(offs)], 'data': offs}]
    return gen


def attach_generators(reg):
    for fn in ('compute_line_length', 'compute_area'):
        reg.by_target[MEAS + '::' + fn].gen = _kernel_gen(fn)
    for d in (1, 2, 3):
        reg.by_target[BL + f'::_geometry_map_nested{d}'].gen = _map_gen(d)
