"""DaskGeoDataFrame.__getitem__ (dask.py): cached per-partition bounds / spatial index are handed to the result
only when the key selects COLUMNS (the rows, hence the partition extents, are unchanged) - never for a row
filter.  The python type of `key` is enumerated as configurations; dask's own __getitem__ and the two
propagation helpers are assumed (they are modelled as marking the result)."""
from pyvc import state as st
from pyvc.contracts import Contract, Sort
from pyvc.values import NONE, SBool, SInt, SRecord, SStr, STuple

DASK = 'spatialpandas/dask.py'

KEYS = {
    'column-name': ('columns', lambda s: SStr('geometry')),
    'column-tuple': ('columns', lambda s: STuple([SStr('a'), SStr('b')])),
    'column-scalar': ('columns', lambda s: SInt(3)),
    'column-list': ('columns', lambda s: s.new_list([SStr('geometry'), SStr('v')])),
    'column-ndarray': ('columns', lambda s: st.new_sym_array(s, 'int', 'int64', [SInt.fresh('nk')], 'keyarr')),
    'row-mask-dask-series': ('rows', lambda s: SRecord('Series', {})),
    'row-slice': ('rows', lambda s: SRecord('slice', {'start': NONE, 'stop': SInt(3), 'step': NONE})),
    'row-mask-dataframe': ('rows', lambda s: SRecord('DataFrame', {})),
}


class DaskFrame(Sort):
    def make(self, state, name):
        result = SRecord('DaskResult', {'series_props': SBool(False), 'frame_props': SBool(False)})

        def getitem(eng, s, fr, obj, args, kwargs, lineno):
            return result

        def to_series(eng, s, fr, obj, args, kwargs, lineno):
            args[0].fields['series_props'] = SBool(True)
            return args[0]

        def to_frame(eng, s, fr, obj, args, kwargs, lineno):
            args[0].fields['frame_props'] = SBool(True)
            return args[0]
        parent = SRecord('dd.DataFrame', {'m:__getitem__': getitem})
        me = SRecord('DaskGeoDataFrame', {'super': parent, 'm:_propagate_props_to_series': to_series,
                                          'm:_propagate_props_to_dataframe': to_frame, 'result': result})
        return me, []


class Key(Sort):
    def __init__(self, kind):
        self.kind = kind

    def make(self, state, name):
        return KEYS[self.kind][1](state), []


def register(reg):
    cfgs = [{'key': k} for k in KEYS]

    def params(cfg):
        k = cfg.get('key')
        return [('self', DaskFrame()), ('key', Key(k if isinstance(k, str) else 'column-name'))]

    def ens(c, r):
        rows = KEYS[c.config['key']][0] == 'rows'
        res = c.self._rec.fields['result']
        got = res.fields['series_props'] | res.fields['frame_props']
        return [('cached-partition-bounds-follow-column-selection-only', got == SBool(not rows)),
                ('returns-dask-result', SBool(r._rec is res if hasattr(r, '_rec') else False))]

    reg.add(Contract(DASK + '::DaskGeoDataFrame.__getitem__', params, returns=None, ensures=ens, configs=cfgs,
                     props=('C06', 'C09', 'C12', 'C13', 'C17'),
                     note='dd.DataFrame.__getitem__, _propagate_props_to_series/_dataframe are assumed'))
