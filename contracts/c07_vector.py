"""C07 - the vectorised entry points of hilbert_curve.py (distances_from_coordinates, coordinates_from_distances):
row loops over the scalar functions.  The scalar functions are verified in bit-vector semantics per configuration
(c07_hilbert); here they appear through an assumed math-mode view (uninterpreted ENC_n / DEC_n,j with their
ranges), and what is proved is that row k of the result is the scalar function of row k of the input, for every
input length, for coordinate arrays of any integer dtype (the result is int64 whatever the input dtype - a
distance needs n*p bits, a coordinate only p), and that the caller's coordinate array is not modified (the scalar
encoder works in place on a copy)."""
import z3

from pyvc.contracts import Arr, Contract, Int, ListOf, Loop
from pyvc.values import SBool, SInt, And, Implies, forall, pow2

P = ('C07', 'C08')
HC = 'spatialpandas/spatialindex/hilbert_curve.py'
I = z3.IntSort()

ENC = {1: z3.Function('HENC1', I, I, I), 2: z3.Function('HENC', I, I, I, I), 3: z3.Function('HENC3', I, I, I, I, I)}
DEC = {(n, j): z3.Function(f'HDEC{n}_{j}', I, I, I) for n in (1, 2, 3) for j in range(n)}


def enc(n, p, cells):
    return SInt(ENC[n](p.z(), *[c.z() for c in cells]))


def register(reg):
    CFG = [{'n': n, 'dtype': dt} for n in (1, 2, 3) for dt in ('int64', 'int32', 'uint8')]

    def in_grid(p, cells):
        return And(*[And(c >= 0, c < pow2(p)) for c in cells])

    # ---- assumed math-mode views of the scalar functions (verified under C07 in bit-vector semantics)
    def dfc1_params(cfg):
        return [('p', Int()), ('coord', Arr('int', cfg.get('dtype', 'int64') if isinstance(cfg.get('dtype'), str) else 'int64'))]

    reg.add(Contract('<math-view>::distance_from_coordinate', dfc1_params, returns=Int(),
                     requires=lambda c: [('p-range', And(c.p >= 1, c.p * c.coord.n <= 62)), ('dimension', c.coord.n == c.config['n']),
                                         ('in-grid', in_grid(c.p, [c.coord[j] for j in range(c.config['n'])]))],
                     ensures=lambda c, r: [('value', r == enc(c.config['n'], c.p, [c.coord[j] for j in range(c.config['n'])])),
                                           ('range', And(r >= 0, r < pow2(c.config['n'] * c.p)))],
                     modifies=('coord',), trusted=True, configs=CFG,
                     note='(math-mode view of the scalar encoder verified under C07 in bit-vector semantics; it overwrites '
                          'its argument)'))

    # ---- distances_from_coordinates
    def v_params(cfg):
        n = cfg.get('n') if isinstance(cfg.get('n'), int) else 2
        dt = cfg.get('dtype') if isinstance(cfg.get('dtype'), str) else 'int64'
        return [('p', Int()), ('coords', Arr('int', dt, ndim=2, cols=n))]

    def ncols(c):
        n = c.config.get('n')
        if n is None:                      # at a call site: the caller's array has a fixed number of columns
            w = c.coords.shape[1]
            n = w.v if w.concrete else None
        if n is None:
            raise ValueError('distances_from_coordinates: number of columns not fixed')
        return n

    def v_requires(c):
        n = ncols(c)
        return [('p-range', And(c.p >= 1, c.p * n <= 62)),
                ('in-grid', forall('int', lambda k: Implies(And(k >= 0, k < c.coords.shape[0]),
                                                            in_grid(c.p, [c.coords[k, j] for j in range(n)]))))]

    def row_ok(c, r, k):
        n = ncols(c)
        return And(r[k] == enc(n, c.p, [c.coords[k, j] for j in range(n)]), r[k] >= 0, r[k] < pow2(n * c.p))

    def v_ensures(c, r):
        return [('length', r.n == c.coords.shape[0]),
                ('rows', forall('int', lambda k: Implies(And(k >= 0, k < r.n), row_ok(c, r, k))))]

    def v_inv(c):
        a = c.a
        n = ncols(a)
        res = c.result
        cp = c.coords          # the local copy: rows not yet processed still equal the caller's rows
        return [('range', And(c.i >= 0, c.i <= a.coords.shape[0], res.n == a.coords.shape[0], cp.shape[0] == a.coords.shape[0])),
                ('done', forall('int', lambda k: Implies(And(k >= 0, k < c.i), row_ok(a, res, k)))),
                ('rows-to-do-are-the-input', forall('int', lambda k: Implies(
                    And(k >= c.i, k < a.coords.shape[0]), And(*[cp[k, j] == a.coords[k, j] for j in range(n)]))))]

    reg.add(Contract(HC + '::distances_from_coordinates', v_params, returns=Arr('int', 'int64'),
                     requires=v_requires, ensures=v_ensures, loops={0: Loop(invariant=v_inv, var='i')},
                     configs=CFG, props=P, flags=('property',)))

    # ---- coordinates_from_distances
    NCFG = [{'n': n} for n in (1, 2, 3)]

    def dec(n, j, p, h):
        return SInt(DEC[(n, j)](p.z(), h.z()))

    reg.add(Contract('<math-view>::coordinate_from_distance', [('p', Int()), ('n', Int()), ('h', Int())],
                     returns=lambda c: Arr('int', 'int64', conc_len=c.config['n']),
                     requires=lambda c: [('p-range', And(c.p >= 1, c.p * c.n <= 62)), ('dimension', c.n == c.config['n']),
                                         ('h-range', And(c.h >= 0, c.h < pow2(c.config['n'] * c.p)))],
                     ensures=lambda c, r: [('cells', And(*[And(r[j] == dec(c.config['n'], j, c.p, c.h), r[j] >= 0, r[j] < pow2(c.p))
                                                           for j in range(c.config['n'])]))],
                     trusted=True, configs=NCFG,
                     note='(math-mode view of the scalar decoder verified under C07 in bit-vector semantics)'))

    def w_requires(c):
        n = c.config['n']
        return [('p-range', And(c.p >= 1, c.p * n <= 62)), ('dimension', c.n == n),
                ('h-range', forall('int', lambda k: Implies(And(k >= 0, k < c.h.n), And(c.h[k] >= 0, c.h[k] < pow2(n * c.p)))))]

    def w_row(c, r, k):
        n = c.config['n']
        return And(*[And(r[k, j] == dec(n, j, c.p, c.h[k]), r[k, j] >= 0, r[k, j] < pow2(c.p)) for j in range(n)])

    reg.add(Contract(HC + '::coordinates_from_distances', [('p', Int()), ('n', Int()), ('h', Arr('int', 'int64'))],
                     returns=lambda c: Arr('int', 'int64', ndim=2, cols=c.config['n']),
                     requires=w_requires,
                     ensures=lambda c, r: [('shape', And(r.shape[0] == c.h.n, r.shape[1] == c.config['n'])),
                                           ('rows', forall('int', lambda k: Implies(And(k >= 0, k < c.h.n), w_row(c, r, k))))],
                     loops={0: Loop(var='i', invariant=lambda c: [
                         ('range', And(c.i >= 0, c.i <= c.a.h.n, c.result.shape[0] == c.a.h.n, c.result.shape[1] == c.a.config['n'])),
                         ('done', forall('int', lambda k: Implies(And(k >= 0, k < c.i), w_row(c.a, c.result, k))))])},
                     configs=NCFG, props=P, flags=('property',)))
