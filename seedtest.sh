#!/bin/bash
# usage: seedtest.sh <seed dir containing patch.diff demo.py meta.json> <PROP> [more PROPs]
# confirms a seeded change in a scratch worktree (demo passes without / fails with, suite still passes),
# then runs the registered quick checks against /repo with the change applied, and reverts it.
SD="$1"; shift
NAME=$(basename "$SD")
W=/tmp/sv_$NAME
git -C /repo worktree remove --force $W 2>/dev/null
git -C /repo worktree add -q --detach $W HEAD || exit 9
cd $W
PYTHONPATH=$W /venv/bin/python "$SD/demo.py" >/tmp/sv_$NAME.demo0.log 2>&1; D0=$?
git apply "$SD/patch.diff" || { echo "PATCH DOES NOT APPLY"; exit 9; }
PYTHONPATH=$W /venv/bin/python "$SD/demo.py" >/tmp/sv_$NAME.demo1.log 2>&1; D1=$?
echo "demo without change: exit $D0 ; with change: exit $D1"
if [ "$SKIP_SUITE" != "1" ]; then
  PYTHONPATH=$W /venv/bin/python -m pytest -q -p no:cacheprovider --timeout=900 spatialpandas/tests 2>&1 | tail -1 | sed 's/\x1b\[[0-9;]*m//g'
fi
cd /verif
git -C /repo worktree remove --force $W
git -C /repo apply "$SD/patch.diff" || exit 9
export PYVC_EVIDENCE_DIR=/tmp/sv_evidence   # never overwrite the committed evidence with a run on a changed tree
for P in "$@"; do
  ./check $P > /tmp/sv_$NAME.$P.log 2>&1; RC=$?
  echo "check $P exit=$RC"; grep -E "VIOLATION|UNDECIDED|FAULT|KNOWN" /tmp/sv_$NAME.$P.log | head -5
done
git -C /repo checkout -- . 
git -C /repo status --short | head -3
