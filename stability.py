"""python3-vt stability.py <PROP> [seeds...]: solve every obligation of a property under several solver seeds and
report the ones that are not proved in some seed or take long (candidates for hints / explicit hypothesis sets)."""
import importlib, sys, time, os
sys.path.insert(0, os.path.dirname(os.path.abspath(__file__)))
from pyvc.run import load_plan, build, generate
from pyvc.solver import solve_all
prop = sys.argv[1]
seeds = [int(x) for x in sys.argv[2:]] or [0, 1, 2, 3]
plan = load_plan()[prop]
reg = build(prop, 'quick', plan)
eng, obs, undecided, functions, lemmas = generate(prop, reg, 'quick', plan)
obs = [o for o in obs if o.expect == 'valid']
print(prop, len(obs), 'obligations', 'undecided functions:', undecided)
worst = {}
for sd in seeds:
    res = solve_all(obs, jobs=16, timeout_s=plan.get('timeout', {}).get('quick', 60), seed=sd)
    for o in obs:
        r = res[o.id]
        w = worst.setdefault(o.name, [])
        w.append((r.status, round(r.time_s, 1), r.backend))
for name, w in sorted(worst.items(), key=lambda kv: -max(x[1] for x in kv[1])):
    if any(x[0] != 'proved' for x in w) or max(x[1] for x in w) > 8:
        print('  ', name, w)
print('done', prop)
