"""Symbolic value layer of pyvc.

Values are thin wrappers around either a concrete Python value or a z3 term.
Integers have two modes (DESIGN 3.2): 'math' (z3 Int, unbounded) and 'bv64'
(64-bit two's complement with numba's operator semantics).  Floats are
extended reals: (tag, val) with tag in {FIN, PINF, NINF, NAN}; arithmetic on
FIN operands is mathematical (exact reals).
"""
from fractions import Fraction
import itertools
import math

import z3

FIN, PINF, NINF, NAN = 0, 1, 2, 3

_counter = itertools.count()


class Mode:
    int_mode = 'math'          # 'math' | 'bv64'


def int_sort():
    return z3.BitVecSort(64) if Mode.int_mode == 'bv64' else z3.IntSort()


def fresh_name(prefix):
    return f"{prefix}!{next(_counter)}"


class Unsupported(Exception):
    """Construct outside the verified subset: the function is undecided, never a violation."""


# ---------------------------------------------------------------- booleans

class SBool:
    __slots__ = ('v',)

    def __init__(self, v):
        if isinstance(v, SBool):
            v = v.v
        if isinstance(v, z3.BoolRef):
            if z3.is_true(v):
                v = True
            elif z3.is_false(v):
                v = False
        elif not isinstance(v, bool):
            raise TypeError(f"SBool from {type(v)}")
        self.v = v

    @property
    def concrete(self):
        return isinstance(self.v, bool)

    def z(self):
        return z3.BoolVal(self.v) if isinstance(self.v, bool) else self.v

    def __and__(self, o):
        o = to_bool(o)
        if self.concrete:
            return o if self.v else SBool(False)
        if o.concrete:
            return self if o.v else SBool(False)
        return SBool(z3.And(self.v, o.v))

    __rand__ = __and__

    def __or__(self, o):
        o = to_bool(o)
        if self.concrete:
            return SBool(True) if self.v else o
        if o.concrete:
            return SBool(True) if o.v else self
        return SBool(z3.Or(self.v, o.v))

    __ror__ = __or__

    def __invert__(self):
        if self.concrete:
            return SBool(not self.v)
        return SBool(z3.Not(self.v))

    def __xor__(self, o):
        o = to_bool(o)
        if self.concrete and o.concrete:
            return SBool(self.v != o.v)
        return SBool(z3.Xor(self.z(), o.z()))

    def implies(self, o):
        return (~self) | to_bool(o)

    def iff(self, o):
        o = to_bool(o)
        if self.concrete and o.concrete:
            return SBool(self.v == o.v)
        return SBool(self.z() == o.z())

    def __eq__(self, o):  # noqa: python equality on symbolic bool means iff
        return self.iff(o)

    def __ne__(self, o):
        return ~self.iff(o)

    __hash__ = None

    def __bool__(self):
        if self.concrete:
            return self.v
        raise TypeError("symbolic SBool used as Python bool")

    def __repr__(self):
        return f"SBool({self.v})"


def to_bool(x):
    if isinstance(x, SBool):
        return x
    if isinstance(x, (bool, z3.BoolRef)):
        return SBool(x)
    if isinstance(x, SInt):
        return x != 0
    if isinstance(x, SFloat):
        return x != SFloat.const(0.0)
    if isinstance(x, int):
        return SBool(x != 0)
    raise TypeError(f"to_bool({type(x)})")


def And(*xs):
    r = SBool(True)
    for x in xs:
        r = r & to_bool(x)
    return r


def Or(*xs):
    r = SBool(False)
    for x in xs:
        r = r | to_bool(x)
    return r


def Not(x):
    return ~to_bool(x)


def Implies(a, b):
    return to_bool(a).implies(b)


def Ite(c, a, b):
    """if-then-else over any pair of like-sorted values."""
    c = to_bool(c)
    if c.concrete:
        return a if c.v else b
    return merge_values(c, a, b)


# ---------------------------------------------------------------- integers

_M64 = (1 << 64) - 1


def _wrap64(x):
    x &= _M64
    return x - (1 << 64) if x >> 63 else x


class SInt:
    __slots__ = ('v', 'pow2_exp')

    def __init__(self, v):
        if isinstance(v, SInt):
            v = v.v
        if isinstance(v, bool):
            v = int(v)
        if isinstance(v, int):
            if Mode.int_mode == 'bv64':
                v = _wrap64(v)
        elif isinstance(v, z3.BitVecNumRef):
            v = v.as_signed_long()
        elif isinstance(v, z3.IntNumRef):
            v = v.as_long()
        elif not isinstance(v, (z3.ArithRef, z3.BitVecRef)):
            raise TypeError(f"SInt from {type(v)}")
        self.v = v
        self.pow2_exp = None

    @property
    def concrete(self):
        return isinstance(self.v, int)

    def z(self):
        if isinstance(self.v, int):
            if Mode.int_mode == 'bv64':
                return z3.BitVecVal(self.v, 64)
            return z3.IntVal(self.v)
        return self.v

    @staticmethod
    def fresh(prefix='i'):
        return SInt(z3.Const(fresh_name(prefix), int_sort()))

    # -- arithmetic
    def _bin(self, o, cf, zf):
        if isinstance(o, SFloat):
            return NotImplemented
        o = to_int(o)
        if self.concrete and o.concrete:
            return SInt(cf(self.v, o.v))
        return SInt(zf(self.z(), o.z()))

    def __add__(self, o):
        if isinstance(o, SInt) and o.concrete and o.v == 0:
            return self
        if self.concrete and self.v == 0 and isinstance(o, SInt):
            return o
        return self._bin(o, lambda a, b: a + b, lambda a, b: a + b)

    def __radd__(self, o):
        return to_int(o).__add__(self)

    def __sub__(self, o):
        if isinstance(o, SInt) and o.concrete and o.v == 0:
            return self
        return self._bin(o, lambda a, b: a - b, lambda a, b: a - b)

    def __rsub__(self, o):
        return to_int(o).__sub__(self)

    def __mul__(self, o):
        if isinstance(o, SInt) and o.concrete and o.v == 1:
            return self
        if self.concrete and self.v == 1 and isinstance(o, SInt):
            return o
        return self._bin(o, lambda a, b: a * b, lambda a, b: a * b)

    def __rmul__(self, o):
        return to_int(o).__mul__(self)

    def __neg__(self):
        return SInt(-self.v) if self.concrete else SInt(-self.v)

    def __floordiv__(self, o):
        o = to_int(o)
        if self.concrete and o.concrete:
            return SInt(self.v // o.v)
        if Mode.int_mode == 'bv64':
            a, b = self.z(), o.z()
            q = a / b            # signed truncating division
            r = z3.SRem(a, b)
            adj = z3.And(r != 0, (r < 0) != (b < 0))
            return SInt(z3.If(adj, q - 1, q))
        # z3 Int div is euclidean; floor division differs for negative divisor
        a, b = self.z(), o.z()
        if o.concrete and o.v > 0:
            return SInt(a / b)
        q = a / b
        return SInt(z3.If(b > 0, q, z3.If(a % b == 0, q, q - 1)))

    def __rfloordiv__(self, o):
        return to_int(o).__floordiv__(self)

    def __mod__(self, o):
        o = to_int(o)
        if self.concrete and o.concrete:
            return SInt(self.v % o.v)
        a, b = self.z(), o.z()
        if Mode.int_mode == 'bv64':
            r = z3.SRem(a, b)
            adj = z3.And(r != 0, (r < 0) != (b < 0))
            return SInt(z3.If(adj, r + b, r))
        if o.concrete and o.v > 0:
            return SInt(a % b)
        r = a % b   # euclidean: 0 <= r < |b|
        return SInt(z3.If(b > 0, r, z3.If(r == 0, r, r + b)))

    def __rmod__(self, o):
        return to_int(o).__mod__(self)

    def __lshift__(self, o):
        o = to_int(o)
        if self.concrete and o.concrete:
            return SInt(self.v << o.v)
        if Mode.int_mode == 'bv64':
            return SInt(self.z() << o.z())
        if o.concrete:
            return SInt(self.z() * (1 << o.v))
        bound = _small_mod_bound(o.z())
        if self.concrete and self.v == 1 and bound is not None:
            # 1 << (e % c): an explicit case table, remembered as a power of two for bit tests (x & (1 << k))
            r = SInt(1 << (bound - 1))
            for j in range(bound - 2, -1, -1):
                r = merge_values(o == j, SInt(1 << j), r)
            r.pow2_exp = (o, bound)
            return r
        return SInt(self.z() * pow2(o).z())

    def __rlshift__(self, o):
        return to_int(o).__lshift__(self)

    def __rshift__(self, o):
        o = to_int(o)
        if self.concrete and o.concrete:
            return SInt(self.v >> o.v)
        if Mode.int_mode == 'bv64':
            return SInt(self.z() >> o.z())      # arithmetic shift on signed
        if o.concrete:
            return SInt(self.z() / (1 << o.v))  # floor for positive divisor
        return SInt(self.z() / pow2(o).z())

    def __rrshift__(self, o):
        return to_int(o).__rshift__(self)

    def _bitop(self, o, cf, zf, name):
        o = to_int(o)
        if self.concrete and o.concrete:
            return SInt(cf(self.v, o.v))
        if Mode.int_mode == 'bv64':
            return SInt(zf(self.z(), o.z()))
        raise Unsupported(f"bit operation {name} on symbolic math-mode integers")

    def __and__(self, o):
        if isinstance(o, SBool):
            return to_bool(self) & o
        if Mode.int_mode == 'math' and isinstance(o, SInt) and o.pow2_exp is not None and not self.concrete:
            # x & 2^k for non-negative x = (bit k of x) * 2^k
            k, bound = o.pow2_exp
            r = SInt(0)
            for j in range(bound - 1, -1, -1):
                r = merge_values(k == j, ((self // (1 << j)) % 2) * (1 << j), r)
            return r
        return self._bitop(o, lambda a, b: a & b, lambda a, b: a & b, '&')

    def __rand__(self, o):
        return to_int(o).__and__(self)

    def __or__(self, o):
        return self._bitop(o, lambda a, b: a | b, lambda a, b: a | b, '|')

    def __ror__(self, o):
        return to_int(o).__or__(self)

    def __xor__(self, o):
        return self._bitop(o, lambda a, b: a ^ b, lambda a, b: a ^ b, '^')

    def __rxor__(self, o):
        return to_int(o).__xor__(self)

    def __invert__(self):
        if self.concrete:
            return SInt(~self.v)
        if Mode.int_mode == 'bv64':
            return SInt(~self.z())
        return SInt(-self.z() - 1)

    # -- comparisons
    def _cmp(self, o, cf, zf):
        if isinstance(o, SFloat):
            return NotImplemented
        o = to_int(o)
        if self.concrete and o.concrete:
            return SBool(cf(self.v, o.v))
        return SBool(zf(self.z(), o.z()))

    def __lt__(self, o):
        return self._cmp(o, lambda a, b: a < b, lambda a, b: a < b)

    def __le__(self, o):
        return self._cmp(o, lambda a, b: a <= b, lambda a, b: a <= b)

    def __gt__(self, o):
        return self._cmp(o, lambda a, b: a > b, lambda a, b: a > b)

    def __ge__(self, o):
        return self._cmp(o, lambda a, b: a >= b, lambda a, b: a >= b)

    def __eq__(self, o):
        if o is None:
            return SBool(False)
        return self._cmp(o, lambda a, b: a == b, lambda a, b: a == b)

    def __ne__(self, o):
        if o is None:
            return SBool(True)
        return self._cmp(o, lambda a, b: a != b, lambda a, b: a != b)

    __hash__ = None

    def __index__(self):
        if self.concrete:
            return self.v
        raise TypeError("symbolic SInt used as Python index")

    def __int__(self):
        return self.__index__()

    def to_float(self):
        if self.concrete:
            return SFloat(FIN, z3.RealVal(self.v))
        if Mode.int_mode == 'bv64':
            return SFloat(FIN, z3.ToReal(z3.BV2Int(self.z(), True)))
        return SFloat(FIN, z3.ToReal(self.z()))

    def __truediv__(self, o):
        return self.to_float() / to_float(o)

    def __rtruediv__(self, o):
        return to_float(o) / self.to_float()

    def __repr__(self):
        return f"SInt({self.v})"


def _small_mod_bound(t):
    """c if the term is (e mod c) with a small constant c, else None"""
    try:
        if z3.is_app(t) and t.decl().kind() == z3.Z3_OP_MOD and z3.is_int_value(t.arg(1)):
            c = t.arg(1).as_long()
            if 1 <= c <= 64:
                return c
    except Exception:
        pass
    return None


_pow2_fn = None


def pow2(k):
    """2**k for a symbolic non-negative math-mode integer: an uninterpreted function with
    the facts the proofs need supplied by contracts (pow2(0)=1, pow2(k+1)=2*pow2(k))."""
    global _pow2_fn
    k = to_int(k)
    if k.concrete:
        return SInt(1 << k.v)
    if Mode.int_mode == 'bv64':
        return SInt(z3.BitVecVal(1, 64) << k.z())
    if _pow2_fn is None:
        _pow2_fn = z3.Function('pow2', z3.IntSort(), z3.IntSort())
    return SInt(_pow2_fn(k.z()))


def to_int(x):
    if isinstance(x, SInt):
        return x
    if isinstance(x, SBool):
        if x.concrete:
            return SInt(int(x.v))
        one, zero = SInt(1).z(), SInt(0).z()
        return SInt(z3.If(x.v, one, zero))
    if isinstance(x, (int, z3.ArithRef, z3.BitVecRef)):
        return SInt(x)
    raise TypeError(f"to_int({type(x)})")


# ---------------------------------------------------------------- floats (extended reals)

def _frac(f):
    if isinstance(f, int):
        return z3.RealVal(f)
    fr = Fraction(f)
    return z3.RealVal(f"{fr.numerator}/{fr.denominator}")


class SFloat:
    """Extended real: tag in {FIN,PINF,NINF,NAN} (python int when known) and a z3 Real."""
    __slots__ = ('tag', 'val', 'narrow')

    def __init__(self, tag, val, narrow=False):
        if isinstance(tag, z3.IntNumRef):
            tag = tag.as_long()
        self.tag = tag
        self.val = val
        # read from a buffer of the array's coordinate subtype (float32 / int16 / ... in general) and not yet widened
        # by np.float64(...) / float(...): comparisons are exact in every subtype, arithmetic is not
        self.narrow = narrow

    def widened(self):
        return SFloat(self.tag, self.val) if self.narrow else self

    @staticmethod
    def const(f):
        if isinstance(f, (int, Fraction)):
            return SFloat(FIN, _frac(f))
        if math.isnan(f):
            return SFloat(NAN, z3.RealVal(0))
        if math.isinf(f):
            return SFloat(PINF if f > 0 else NINF, z3.RealVal(0))
        return SFloat(FIN, _frac(f))

    @staticmethod
    def fresh(prefix='f', finite=False):
        val = z3.Real(fresh_name(prefix))
        if finite:
            return SFloat(FIN, val)
        return SFloat(z3.Int(fresh_name(prefix + '_t')), val)

    def tag_constraint(self):
        if isinstance(self.tag, int):
            return SBool(True)
        return SBool(z3.And(self.tag >= 0, self.tag <= 3))

    @property
    def known_finite(self):
        return isinstance(self.tag, int) and self.tag == FIN

    def ztag(self):
        return z3.IntVal(self.tag) if isinstance(self.tag, int) else self.tag

    def _tag_is(self, t):
        if isinstance(self.tag, int):
            return SBool(self.tag == t)
        return SBool(self.tag == t)

    def is_fin(self):
        return self._tag_is(FIN)

    def is_nan(self):
        return self._tag_is(NAN)

    def is_pinf(self):
        return self._tag_is(PINF)

    def is_ninf(self):
        return self._tag_is(NINF)

    def is_inf(self):
        return self.is_pinf() | self.is_ninf()

    # IEEE comparisons
    def __lt__(self, o):
        o = to_float(o)
        if self.known_finite and o.known_finite:
            return SBool(self.val < o.val)
        return (~self.is_nan()) & (~o.is_nan()) & (
            (self.is_ninf() & ~o.is_ninf()) |
            (o.is_pinf() & ~self.is_pinf()) |
            (self.is_fin() & o.is_fin() & SBool(self.val < o.val)))

    def __gt__(self, o):
        return to_float(o).__lt__(self)

    def __le__(self, o):
        o = to_float(o)
        if self.known_finite and o.known_finite:
            return SBool(self.val <= o.val)
        return (~self.is_nan()) & (~o.is_nan()) & (
            self.is_ninf() | o.is_pinf() |
            (self.is_fin() & o.is_fin() & SBool(self.val <= o.val)))

    def __ge__(self, o):
        return to_float(o).__le__(self)

    def __eq__(self, o):
        if o is None:
            return SBool(False)
        o = to_float(o)
        if self.known_finite and o.known_finite:
            return SBool(self.val == o.val)
        return (~self.is_nan()) & (~o.is_nan()) & (
            (self.is_pinf() & o.is_pinf()) | (self.is_ninf() & o.is_ninf()) |
            (self.is_fin() & o.is_fin() & SBool(self.val == o.val)))

    def __ne__(self, o):
        return ~self.__eq__(o)

    __hash__ = None

    def same(self, o):
        """Identity as extended reals (NaN same as NaN) - spec-level equality."""
        o = to_float(o)
        if self.known_finite and o.known_finite:
            return SBool(self.val == o.val)
        return SBool(self.ztag() == o.ztag()) & (
            (~self.is_fin()) | SBool(self.val == o.val))

    # arithmetic: mathematical on FIN operands; with a non-FIN operand the result is an unspecified but
    # DETERMINISTIC function of the operands (uninterpreted), so re-evaluating an expression gives the same value
    def _arith(self, o, f, opname='op'):
        o = to_float(o)
        if self.narrow or o.narrow:
            raise Unsupported("arithmetic on a value of the coordinate subtype that was not widened to float64 "
                              "(evaluated in the subtype: outside the real-number model)")
        if self.known_finite and o.known_finite:
            return SFloat(FIN, f(self.val, o.val))
        both = self.is_fin() & o.is_fin()
        ut, uv = _nonfinite_fns(opname)
        args = (self.ztag(), self.val, o.ztag(), o.val)
        ft = ut(*args) % 4
        fv = uv(*args)
        return SFloat(z3.If(both.z(), z3.IntVal(FIN), ft), z3.If(both.z(), f(self.val, o.val), fv))

    def __add__(self, o):
        return self._arith(o, lambda a, b: a + b, 'add')

    __radd__ = __add__

    def __sub__(self, o):
        return self._arith(o, lambda a, b: a - b, 'sub')

    def __rsub__(self, o):
        return to_float(o)._arith(self, lambda a, b: a - b, 'sub')

    def __mul__(self, o):
        return self._arith(o, lambda a, b: a * b, 'mul')

    __rmul__ = __mul__

    def __truediv__(self, o):
        return self._arith(o, lambda a, b: a / b, 'div')

    def __rtruediv__(self, o):
        return to_float(o)._arith(self, lambda a, b: a / b, 'div')

    def __neg__(self):
        if self.known_finite:
            return SFloat(FIN, -self.val)
        t = self.ztag()
        return SFloat(z3.If(t == PINF, z3.IntVal(NINF), z3.If(t == NINF, z3.IntVal(PINF), t)), -self.val)

    def __pow__(self, o):
        o2 = o.v if isinstance(o, SInt) else o
        if o2 == 2:
            return self * self
        raise Unsupported("float power other than 2")

    def __repr__(self):
        return f"SFloat({self.tag},{self.val})"


_nf_cache = {}


def _nonfinite_fns(opname):
    if opname not in _nf_cache:
        sig = [z3.IntSort(), z3.RealSort(), z3.IntSort(), z3.RealSort()]
        _nf_cache[opname] = (z3.Function('nf_' + opname + '_t', *sig, z3.IntSort()),
                             z3.Function('nf_' + opname + '_v', *sig, z3.RealSort()))
    return _nf_cache[opname]


nf_sqrt_t = z3.Function('nf_sqrt_t', z3.IntSort(), z3.RealSort(), z3.IntSort())
nf_cast = z3.Function('nf_cast', z3.IntSort(), z3.RealSort(), z3.IntSort())


# constraints that accompany fresh unconstrained values (tag ranges); the engine drains these
_side_constraints = []


def drain_side_constraints():
    out = list(_side_constraints)
    _side_constraints.clear()
    return out


def to_float(x):
    if isinstance(x, SFloat):
        return x
    if isinstance(x, SInt):
        return x.to_float()
    if isinstance(x, SBool):
        return to_int(x).to_float()
    if isinstance(x, (int, float, Fraction)):
        return SFloat.const(x)
    if isinstance(x, z3.ArithRef):
        if x.is_int():
            return SFloat(FIN, z3.ToReal(x))
        return SFloat(FIN, x)
    raise TypeError(f"to_float({type(x)})")


sqrt_fn = z3.Function('sqrt', z3.RealSort(), z3.RealSort())


def fsqrt(x):
    x = to_float(x)
    if x.known_finite:
        return SFloat(FIN, sqrt_fn(x.val))
    ft = nf_sqrt_t(x.ztag(), x.val) % 4
    return SFloat(z3.If(x.is_fin().z(), z3.IntVal(FIN), ft), sqrt_fn(x.val))


# ---------------------------------------------------------------- composite values

class STuple:
    __slots__ = ('items',)

    def __init__(self, items):
        self.items = tuple(items)

    def __len__(self):
        return len(self.items)

    def __getitem__(self, i):
        if isinstance(i, SInt):
            i = int(i)
        if isinstance(i, slice):
            return STuple(self.items[i])
        return self.items[i]

    def __iter__(self):
        return iter(self.items)

    def __add__(self, o):
        return STuple(self.items + tuple(o.items))

    def __repr__(self):
        return f"STuple{self.items}"


class SList:
    """Python list of concrete length, mutable, identity matters (passed by reference)."""
    __slots__ = ('lid',)

    def __init__(self, lid):
        self.lid = lid

    def __repr__(self):
        return f"SList#{self.lid}"


class GList:
    """Content of a python list of *symbolic* length whose items are ints (arity None) or int tuples of a fixed
    arity: one z3 array Int -> Int per component plus the length.  Immutable; State.lists[lid] holds the current one."""
    __slots__ = ('cols', 'n', 'arity')

    def __init__(self, cols, n, arity):
        self.cols = tuple(cols)
        self.n = to_int(n)
        self.arity = arity

    @staticmethod
    def from_items(items, arity):
        k = 1 if arity is None else arity
        cols = [z3.K(z3.IntSort(), z3.IntVal(0)) for _ in range(k)]
        g = GList(cols, SInt(0), arity)
        for it in items:
            g = g.append(it)
        return g

    @staticmethod
    def fresh(name, arity):
        k = 1 if arity is None else arity
        cols = [z3.Array(fresh_name(f'{name}_c{j}'), z3.IntSort(), z3.IntSort()) for j in range(k)]
        return GList(cols, SInt.fresh(name + '_n'), arity)

    def get(self, i):
        i = to_int(i)
        vals = [SInt(z3.Select(c, i.z())) for c in self.cols]
        return vals[0] if self.arity is None else STuple(vals)

    def _parts(self, v):
        if self.arity is None:
            if not isinstance(v, SInt):
                raise Unsupported("growable list: item is not an int")
            return [v]
        if not isinstance(v, STuple) or len(v) != self.arity or not all(isinstance(x, SInt) for x in v.items):
            raise Unsupported("growable list: item is not an int tuple of the declared arity")
        return list(v.items)

    def append(self, v):
        parts = self._parts(v)
        cols = [z3.Store(c, self.n.z(), p.z()) for c, p in zip(self.cols, parts)]
        return GList(cols, self.n + 1, self.arity)

    def pop(self):
        return self.get(self.n - 1), GList(self.cols, self.n - 1, self.arity)

    def __len__(self):
        raise Unsupported("python-level length of a growable list")


class SNone:
    def __repr__(self):
        return "SNone"


NONE = SNone()


class SStr:
    __slots__ = ('s',)

    def __init__(self, s):
        self.s = s

    def __repr__(self):
        return f"SStr({self.s!r})"


class SFunc:
    """A first-class reference to a function under contract (e.g. compute_area passed to a map kernel)."""
    __slots__ = ('name',)

    def __init__(self, name):
        self.name = name


class SArr:
    """A numpy array value: a view (dims) onto a heap base."""
    __slots__ = ('base', 'dims')

    def __init__(self, base, dims):
        self.base = base        # Base object (metadata); content lives in State.heap[base.id]
        self.dims = tuple(dims)  # per base dimension: ('fix', SInt) | ('rng', off, stride, n)

    @property
    def ndim(self):
        return sum(1 for d in self.dims if d[0] == 'rng')

    def rng_dims(self):
        return [d for d in self.dims if d[0] == 'rng']

    def length(self):
        r = self.rng_dims()
        if not r:
            raise Unsupported("len() of 0-d array")
        return r[0][3]

    def shape(self):
        return tuple(d[3] for d in self.rng_dims())

    @property
    def elem(self):
        return self.base.elem

    def is_plain(self):
        """whole-base 1-D view with stride 1"""
        return (len(self.dims) == 1 and self.dims[0][0] == 'rng')

    def __repr__(self):
        return f"SArr(base={self.base.id},{self.dims})"


class Base:
    """Heap array metadata. kind 'sym': content = dict(val=z3 array, tag=z3 array|None);
    kind 'conc': content = tuple of cell values (concrete shape)."""
    __slots__ = ('id', 'elem', 'dtype', 'shape', 'kind', 'name', 'meta', 'finite')
    _ids = itertools.count()

    def __init__(self, elem, dtype, shape, kind, name='arr'):
        self.id = next(Base._ids)
        self.elem = elem      # 'float' | 'int' | 'bool'
        self.dtype = dtype    # numpy dtype name
        self.shape = tuple(shape)  # tuple of SInt
        self.kind = kind
        self.name = name
        self.meta = {}
        self.finite = False   # static type invariant: every cell is a finite float (stores are checked)


class SRecord:
    """An object with named fields (self of a jitclass / geometry array / library object)."""
    __slots__ = ('cls', 'fields', 'rid')
    _ids = itertools.count()

    def __init__(self, cls, fields):
        self.cls = cls
        self.fields = dict(fields)
        self.rid = next(SRecord._ids)

    def __repr__(self):
        return f"SRecord<{self.cls}>"


# ---------------------------------------------------------------- merging

def merge_values(c, a, b):
    """ite(c, a, b) for values; raises Unsupported when the shapes differ."""
    c = to_bool(c)
    if a is b:
        return a
    if isinstance(a, SBool) or isinstance(b, SBool):
        if isinstance(a, (SBool, bool)) and isinstance(b, (SBool, bool)):
            a, b = to_bool(a), to_bool(b)
            if a.concrete and b.concrete and a.v == b.v:
                return a
            return SBool(z3.If(c.z(), a.z(), b.z()))
    if isinstance(a, SInt) and isinstance(b, SInt):
        if a.concrete and b.concrete and a.v == b.v:
            return a
        az, bz = a.z(), b.z()
        if az.eq(bz):
            return a
        return SInt(z3.If(c.z(), az, bz))
    if isinstance(a, (SFloat, SInt)) and isinstance(b, (SFloat, SInt)):
        a, b = to_float(a), to_float(b)
        if isinstance(a.tag, int) and isinstance(b.tag, int) and a.tag == b.tag:
            tag = a.tag
        else:
            tag = z3.If(c.z(), a.ztag(), b.ztag())
        val = a.val if a.val.eq(b.val) else z3.If(c.z(), a.val, b.val)
        return SFloat(tag, val)
    if isinstance(a, STuple) and isinstance(b, STuple) and len(a) == len(b):
        return STuple(merge_values(c, x, y) for x, y in zip(a.items, b.items))
    if isinstance(a, SNone) and isinstance(b, SNone):
        return a
    if isinstance(a, SArr) and isinstance(b, SArr) and a.base is b.base and len(a.dims) == len(b.dims):
        dims = []
        for da, db in zip(a.dims, b.dims):
            if da[0] != db[0]:
                raise Unsupported("merge of differently shaped views")
            dims.append((da[0],) + tuple(merge_values(c, x, y) for x, y in zip(da[1:], db[1:])))
        return SArr(a.base, dims)
    if isinstance(a, SList) and isinstance(b, SList) and a.lid == b.lid:
        return a
    if isinstance(a, SRecord) and isinstance(b, SRecord) and a.rid == b.rid:
        return a
    if isinstance(a, SStr) and isinstance(b, SStr) and a.s == b.s:
        return a
    if isinstance(a, SFunc) and isinstance(b, SFunc) and a.name == b.name:
        return a
    raise Unsupported(f"cannot merge {type(a).__name__} with {type(b).__name__}")


def values_equal_syntactically(a, b):
    try:
        if a is b:
            return True
        if isinstance(a, SInt) and isinstance(b, SInt):
            return a.z().eq(b.z())
        if isinstance(a, SBool) and isinstance(b, SBool):
            return a.z().eq(b.z())
        if isinstance(a, SFloat) and isinstance(b, SFloat):
            return a.ztag().eq(b.ztag()) and a.val.eq(b.val)
        if isinstance(a, STuple) and isinstance(b, STuple) and len(a) == len(b):
            return all(values_equal_syntactically(x, y) for x, y in zip(a.items, b.items))
    except Exception:
        return False
    return False


def _mentions_all(p, vs):
    want = {v.get_id() for v in vs}
    stack = [p]
    seen = set()
    while stack and want:
        x = stack.pop()
        if x.get_id() in seen:
            continue
        seen.add(x.get_id())
        want.discard(x.get_id())
        stack.extend(x.children())
    return not want


def forall(sorts, fn, patterns=None):
    """forall over ints (math mode): fn receives SInt bound variables, returns SBool."""
    if not isinstance(sorts, (list, tuple)):
        sorts = [sorts]
    vs = [z3.Const(fresh_name('q'), int_sort() if s == 'int' else z3.RealSort()) for s in sorts]
    args = [SInt(v) if s == 'int' else SFloat(FIN, v) for v, s in zip(vs, sorts)]
    body = to_bool(fn(*args))
    if body.concrete:
        return body
    if patterns:
        pats = patterns(*args)
        pats = [p.z() if hasattr(p, 'z') else p for p in pats]
        if all(_mentions_all(p, vs) for p in pats):
            try:
                return SBool(z3.ForAll(vs, body.z(), patterns=pats))
            except z3.Z3Exception:
                pass    # e.g. the pattern is not a valid trigger after simplification
    return SBool(z3.ForAll(vs, body.z()))


def exists(sorts, fn):
    if not isinstance(sorts, (list, tuple)):
        sorts = [sorts]
    vs = [z3.Const(fresh_name('e'), int_sort() if s == 'int' else z3.RealSort()) for s in sorts]
    args = [SInt(v) if s == 'int' else SFloat(FIN, v) for v, s in zip(vs, sorts)]
    body = to_bool(fn(*args))
    if body.concrete:
        return body
    return SBool(z3.Exists(vs, body.z()))
