"""Program state (environment, array heap, python lists, path condition) and array primitives."""
import itertools

import z3

from .values import (FIN, NAN, Base, Mode, SArr, SBool, SFloat, SInt, Unsupported, And, Implies, Not, fresh_name,
                     int_sort, merge_values, to_bool, to_float, to_int)

UNSIGNED_BITS = {'uint8': 8, 'uint16': 16, 'uint32': 32, 'uint64': 64, 'bool': 1}
SIGNED_BITS = {'int8': 8, 'int16': 16, 'int32': 32, 'int64': 64}


def _has_quantifier(t, _cache={}):
    tid = t.get_id()
    if tid in _cache:
        return _cache[tid]
    stack = [t]
    seen = set()
    res = False
    n = 0
    while stack:
        x = stack.pop()
        if x.get_id() in seen:
            continue
        seen.add(x.get_id())
        n += 1
        if z3.is_quantifier(x) or n > 4000:
            res = True
            break
        stack.extend(x.children())
    _cache[tid] = res
    return res


def elem_sort(elem):
    if elem == 'float':
        return z3.RealSort()
    if elem == 'int':
        return int_sort()
    if elem == 'bool':
        return z3.BoolSort()
    raise Unsupported(f"element kind {elem}")


class State:
    _lids = itertools.count()

    def __init__(self):
        self.env = {}
        self.heap = {}      # base id -> content
        self.lists = {}     # list id -> tuple(items)
        self.pc = []        # list of z3 BoolRef hypotheses
        self.guards = []    # short-circuit guards active while evaluating a sub-expression
        self.facts = {}     # label -> z3 term: named hypotheses (invariant clauses, hints, definitions)
        self.dead = False

    def clone(self):
        s = State()
        s.env = dict(self.env)
        s.heap = dict(self.heap)
        s.lists = dict(self.lists)
        s.pc = list(self.pc)
        s.guards = list(self.guards)
        s.facts = dict(self.facts)
        s.dead = self.dead
        return s

    def assume(self, b):
        b = to_bool(b)
        if b.concrete:
            if not b.v and not self.guards:
                self.dead = True
            elif not b.v:
                self.pc.append(z3.Not(z3.And(*self.guards)))
            return
        if self.guards:
            self.pc.append(z3.Implies(z3.And(*self.guards), b.v))
        else:
            self.pc.append(b.v)

    def knows(self, cond, timeout_ms=150):
        """cheap entailment check from the quantifier-free conjuncts of the path condition; used only to
        simplify terms (dropping slice clamps that cannot fire) - never to discharge an obligation"""
        cond = to_bool(cond)
        if cond.concrete:
            return cond.v
        try:
            sv = z3.Solver()
            sv.set('timeout', timeout_ms)
            for h in self.pc:
                if not _has_quantifier(h):
                    sv.add(h)
            for g in self.guards:
                sv.add(g)
            sv.add(z3.Not(cond.v))
            return sv.check() == z3.unsat
        except z3.Z3Exception:
            return False

    def assume_named(self, label, b):
        b = to_bool(b)
        self.assume(b)
        if not b.concrete:
            self.facts[label] = b.v

    def new_list(self, items):
        from .values import SList
        lid = next(State._lids)
        self.lists[lid] = tuple(items)
        return SList(lid)


# ------------------------------------------------------------------ allocation

def _shape(shape):
    return tuple(to_int(s) for s in shape)


def full_view(base):
    return SArr(base, [('rng', SInt(0), SInt(1), n) for n in base.shape])


def new_sym_array(state, elem, dtype, shape, name='arr', finite=False):
    shape = _shape(shape)
    base = Base(elem, dtype, shape, 'sym', name)
    base.finite = bool(finite) and elem == 'float'
    idx = [int_sort()] * len(shape)
    val = z3.Array(fresh_name(name), *idx, elem_sort(elem))
    tag = None
    if elem == 'float':
        if finite:
            tag = None
        else:
            tag = z3.Array(fresh_name(name + '_t'), *idx, z3.IntSort())
    state.heap[base.id] = {'val': val, 'tag': tag, 'fn': None}
    return full_view(base)


def new_conc_array(state, elem, dtype, shape, fill):
    shape = tuple(int(s) for s in shape)
    n = 1
    for s in shape:
        n *= s
    base = Base(elem, dtype, tuple(SInt(s) for s in shape), 'conc', 'c')
    state.heap[base.id] = tuple([fill] * n)
    return full_view(base)


def new_filled_sym_array(state, elem, dtype, shape, fill, name='arr'):
    """np.full/zeros with symbolic shape: a constant array."""
    shape = _shape(shape)
    base = Base(elem, dtype, shape, 'sym', name)
    if elem == 'float':
        fv = to_float(fill)
    elif elem == 'int':
        fv = to_int(fill)
    else:
        fv = to_bool(fill)
    if elem == 'float' and fv.known_finite:
        base.finite = True
    state.heap[base.id] = fn_content(lambda idx, fv=fv: fv)
    return full_view(base)


def _const_array(idx_sorts, v):
    if len(idx_sorts) == 1:
        return z3.K(idx_sorts[0], v)
    # multi-index constant array: lambda
    vs = [z3.Const(fresh_name('k'), s) for s in idx_sorts]
    return z3.Lambda(vs, v)


# ------------------------------------------------------------------ index arithmetic

def base_index(arr, idxs, ob=None, what='index'):
    """map view indices (one per rng dim) to base indices; emit bounds obligations via ob."""
    idxs = list(idxs)
    out = []
    for d in arr.dims:
        if d[0] == 'fix':
            out.append(d[1])
        else:
            _, off, stride, n = d
            if not idxs:
                raise Unsupported("too few indices")
            i = to_int(idxs.pop(0))
            if i.concrete and i.v < 0:
                i = i + n        # python negative index
            if ob is not None:
                ob(what, And(SInt(0) <= i, i < n))
            out.append(off + stride * i)
    if idxs:
        raise Unsupported("too many indices")
    return out


def _flat_conc(base, bidx):
    if len(base.shape) == 1:
        return bidx[0]
    if len(base.shape) == 2:
        return bidx[0] * base.shape[1] + bidx[1]
    raise Unsupported(">2-d concrete array")


def _wrap_elem(base, state, val, tag=None):
    if base.elem == 'float':
        return SFloat(FIN if tag is None else tag, val)
    if base.elem == 'int':
        return SInt(val)
    return SBool(val)


def read_base(state, base, bidx, assume_types=True):
    content = state.heap[base.id]
    if base.kind == 'conc':
        flat = _flat_conc(base, bidx)
        cells = content
        if flat.concrete:
            if 0 <= flat.v < len(cells):
                return cells[flat.v]
            return _fresh_elem(base)
        # symbolic index into a concrete-shape array: ite chain
        res = cells[-1] if cells else _fresh_elem(base)
        for k in range(len(cells) - 2, -1, -1):
            res = merge_values(flat == k, cells[k], res)
        return res
    if content.get('fn') is not None:
        v = content['fn'](list(bidx))
        if base.elem == 'float':
            return to_float(v)
        if base.elem == 'int':
            return to_int(v)
        return to_bool(v)
    zi = [i.z() for i in bidx]
    val = z3.Select(content['val'], *zi)
    val = z3.simplify(val) if _is_const_select(content['val']) else val
    if base.elem == 'float':
        tag = content['tag']
        narrow = bool(base.meta.get('narrow'))
        if tag is None:
            return SFloat(FIN, val, narrow)
        t = z3.Select(tag, *zi)
        t = z3.simplify(t) if _is_const_select(tag) else t
        if assume_types and not isinstance(t, z3.IntNumRef):
            state.assume(SBool(z3.And(t >= 0, t <= 3)))
        return SFloat(t, val, narrow)
    if base.elem == 'int':
        v = SInt(val)
        if assume_types and not v.concrete and Mode.int_mode == 'math':
            if base.dtype in UNSIGNED_BITS:
                state.assume(SBool(z3.And(val >= 0, val < (1 << UNSIGNED_BITS[base.dtype]))))
        return v
    return SBool(val)


def fn_content(fn):
    """functional array content: cell idx (list of SInt base indices) |-> value; reads beta-reduce eagerly"""
    return {'val': None, 'tag': None, 'fn': fn}


def content_arrays(base, content):
    """z3 array terms (val, tag|None) of a content; functional contents are materialised as lambdas (cached)"""
    if content.get('fn') is None:
        return content['val'], content['tag']
    if 'A' not in content:
        js = [z3.Const(fresh_name('mj'), int_sort()) for _ in base.shape]
        v = content['fn']([SInt(j) for j in js])
        if base.elem == 'float':
            v = to_float(v)
            content['A'] = z3.Lambda(js, v.val)
            content['T'] = None if v.known_finite else z3.Lambda(js, v.ztag())
        elif base.elem == 'int':
            content['A'] = z3.Lambda(js, to_int(v).z())
            content['T'] = None
        else:
            content['A'] = z3.Lambda(js, to_bool(v).z())
            content['T'] = None
    return content['A'], content['T']


class _NoAssume:
    def __init__(self, heap):
        self.heap = heap

    def assume(self, b):
        pass


def content_reader(base, content):
    """idx list -> value, reading the given (snapshot) content"""
    snap = _NoAssume({base.id: content})
    return lambda idx: read_base(snap, base, idx, assume_types=False)


def _is_const_select(arr):
    try:
        return z3.is_K(arr) or z3.is_const_array(arr)
    except Exception:
        return False


def _fresh_elem(base):
    if base.elem == 'float':
        return SFloat.fresh('oob')
    if base.elem == 'int':
        return SInt.fresh('oob')
    return SBool(z3.Bool(fresh_name('oob')))


def coerce_elem(base, v, ob=None):
    """convert a value to the element type of base (numpy store semantics)."""
    if base.elem == 'float':
        f = to_float(v)
        if base.finite and not f.known_finite:
            if ob is None:
                raise Unsupported("possibly non-finite value stored into an array typed finite")
            ob('range', f.is_fin())
            f = SFloat(FIN, f.val)
        return f
    if base.elem == 'bool':
        return to_bool(v)
    if isinstance(v, SFloat):
        raise Unsupported("float stored into integer array")
    v = to_int(v)
    if base.dtype in UNSIGNED_BITS and base.dtype != 'bool':
        bits = UNSIGNED_BITS[base.dtype]
        if Mode.int_mode == 'bv64':
            if bits < 64:
                v = v & ((1 << bits) - 1)
        elif ob is not None:
            ob('range', And(SInt(0) <= v, v < SInt(1 << bits)))
    elif base.dtype in SIGNED_BITS and SIGNED_BITS[base.dtype] < 64:
        bits = SIGNED_BITS[base.dtype]
        if Mode.int_mode == 'bv64':
            raise Unsupported("narrow signed store in bv mode")
        if ob is not None:
            ob('range', And(SInt(-(1 << (bits - 1))) <= v, v < SInt(1 << (bits - 1))))
    return v


def write_base(state, base, bidx, v):
    content = state.heap[base.id]
    if base.kind == 'conc':
        flat = _flat_conc(base, bidx)
        cells = list(content)
        if flat.concrete:
            if 0 <= flat.v < len(cells):
                cells[flat.v] = v
        else:
            for k in range(len(cells)):
                cells[k] = merge_values(flat == k, v, cells[k])
        state.heap[base.id] = tuple(cells)
        return
    if content.get('fn') is not None:
        oldfn = content['fn']
        bidx = list(bidx)

        def newfn(idx, oldfn=oldfn, bidx=bidx, v=v):
            hit = And(*[a == b for a, b in zip(idx, bidx)])
            return merge_values(hit, v, oldfn(idx)) if not hit.concrete else (v if hit.v else oldfn(idx))
        state.heap[base.id] = fn_content(newfn)
        return
    zi = [i.z() for i in bidx]
    new = dict(content)
    if base.elem == 'float':
        new['val'] = z3.Store(content['val'], *zi, v.val)
        if content['tag'] is None:
            if not v.known_finite:
                # array was statically finite; it no longer is
                idx = [int_sort()] * len(bidx)
                new['tag'] = z3.Store(_const_array(idx, z3.IntVal(FIN)), *zi, v.ztag())
        else:
            new['tag'] = z3.Store(content['tag'], *zi, v.ztag())
    else:
        new['val'] = z3.Store(content['val'], *zi, v.z())
    state.heap[base.id] = new


def read(state, arr, idxs, ob=None):
    return read_base(state, arr.base, base_index(arr, idxs, ob, 'index'))


def write(state, arr, idxs, v, ob=None):
    bidx = base_index(arr, idxs, ob, 'store')
    write_base(state, arr.base, bidx, coerce_elem(arr.base, v, ob))


def havoc_base(state, base):
    if base.kind == 'conc':
        state.heap[base.id] = tuple(_fresh_elem(base) for _ in state.heap[base.id])
        return
    idx = [int_sort()] * len(base.shape)
    content = state.heap[base.id]
    new = {'val': z3.Array(fresh_name(base.name + '_h'), *idx, elem_sort(base.elem)), 'tag': None, 'fn': None}
    if base.elem == 'float' and not base.finite:
        new['tag'] = z3.Array(fresh_name(base.name + '_ht'), *idx, z3.IntSort())
    state.heap[base.id] = new


def havoc_view(state, arr):
    """a callee that is handed the view `arr` may change the cells of that view only: havoc the base, then state that
    every base cell outside the view keeps its value"""
    base = arr.base
    if base.kind == 'conc':
        havoc_base(state, base)
        return
    old = content_reader(base, state.heap[base.id])
    havoc_base(state, base)
    whole = True
    for d, extent in zip(arr.dims, base.shape):
        if d[0] == 'fix':
            whole = False
            break
        _, off, stride, n = d
        if not (off.concrete and off.v == 0 and stride.concrete and stride.v == 1 and
                (n is extent or (n.concrete and to_int(extent).concrete and n.v == to_int(extent).v))):
            whole = False
            break
    if whole:
        return
    new = content_reader(base, state.heap[base.id])

    def in_view(idx):
        conds = []
        for d, i in zip(arr.dims, idx):
            if d[0] == 'fix':
                conds.append(i == d[1])
            else:
                _, off, stride, n = d
                if stride.concrete and stride.v == 1:
                    conds.append(And(i >= off, i < off + n))
                else:
                    conds.append(And(i >= off, i < off + stride * n, ((i - off) % stride) == 0))
        return And(*conds)
    vs = [z3.Const(fresh_name('hv'), int_sort()) for _ in base.shape]
    idx = [SInt(v) for v in vs]
    a, b = new(idx), old(idx)
    same = a.same(b) if isinstance(a, SFloat) else (a.iff(b) if isinstance(a, SBool) else a == b)
    body = Implies(Not(in_view(idx)), same)
    state.assume(SBool(z3.ForAll(vs, body.z())))


# ------------------------------------------------------------------ slicing

def _clamp(x, lo, hi, knows=None):
    """clamp x into [lo, hi] (hi >= lo assumed); clamps that provably cannot fire are dropped"""
    x = to_int(x)
    if x.concrete and lo.concrete and hi.concrete:
        return SInt(max(lo.v, min(hi.v, x.v)))
    low_ok = (x >= lo)
    high_ok = (x <= hi)
    if knows is not None:
        r = x
        if not (low_ok.concrete and low_ok.v) and not knows(low_ok):
            r = merge_values(x < lo, lo, r)
        if not (high_ok.concrete and high_ok.v) and not knows(high_ok):
            r = merge_values(r > hi, hi, r)
        return r
    r = merge_values(x < lo, lo, x)
    return merge_values(r > hi, hi, r)


def _norm_bound(b, n):
    b = to_int(b)
    if b.concrete and b.v < 0:
        return b + n
    return b


def slice_dim(dim, lo, hi, step, knows=None):
    """apply python slice lo:hi:step (None allowed) to a ('rng', off, stride, n) dim."""
    _, off, stride, n = dim
    step = SInt(1) if step is None else to_int(step)
    if not step.concrete:
        raise Unsupported("symbolic slice step")
    if step.v > 0:
        lo = SInt(0) if lo is None else _clamp(_norm_bound(lo, n), SInt(0), n, knows)
        hi = n if hi is None else _clamp(_norm_bound(hi, n), SInt(0), n, knows)
        span = hi - lo
        if step.v == 1:
            cnt = span
        else:
            cnt = (span + (step.v - 1)) // step.v
        if cnt.concrete:
            cnt = SInt(max(cnt.v, 0))
        elif not (knows is not None and knows(span >= 0)):
            cnt = merge_values(cnt < 0, SInt(0), cnt)
        return ('rng', off + stride * lo, stride * step, cnt)
    if step.v == -1 and lo is None and hi is None:
        return ('rng', off + stride * (n - 1), SInt(0) - stride, n)
    raise Unsupported("negative slice step with explicit bounds")


def name_content(state, base):
    """replace a functional content by a fresh array symbol plus its definition
    (forall idx. a[idx] == fn(idx)); keeps later formulas small (the definition is instantiated on demand)"""
    content = state.heap.get(base.id)
    if not isinstance(content, dict) or content.get('fn') is None:
        return
    idx_sorts = [int_sort()] * len(base.shape)
    js = [z3.Const(fresh_name('dj'), int_sort()) for _ in base.shape]
    v = content['fn']([SInt(j) for j in js])
    val = z3.Array(fresh_name(base.name + '_d'), *idx_sorts, elem_sort(base.elem))
    new = {'val': val, 'tag': None, 'fn': None}
    sel = z3.Select(val, *js)
    if base.elem == 'float':
        v = to_float(v)
        eqs = [sel == v.val]
        if not v.known_finite:
            tag = z3.Array(fresh_name(base.name + '_dt'), *idx_sorts, z3.IntSort())
            new['tag'] = tag
            eqs.append(z3.Select(tag, *js) == v.ztag())
        else:
            base.finite = True
    elif base.elem == 'int':
        eqs = [sel == to_int(v).z()]
    else:
        eqs = [sel == to_bool(v).z()]
    df = z3.ForAll(js, z3.And(*eqs), patterns=[sel])
    state.pc.append(df)
    state.facts['def:' + base.name + ':' + str(base.id)] = df
    state.heap[base.id] = new


def apply_index(arr, items, knows=None):
    """numpy basic indexing: items is a list of ('idx', SInt) | ('slice', lo, hi, step) per rng dim.
    returns (new dims, checks) where checks are (index, length) pairs to be bounds-checked"""
    dims = []
    checks = []
    it = list(items)
    for d in arr.dims:
        if d[0] == 'fix':
            dims.append(d)
            continue
        if not it:
            dims.append(d)
            continue
        item = it.pop(0)
        if item[0] == 'idx':
            _, off, stride, n = d
            i = to_int(item[1])
            if i.concrete and i.v < 0:
                i = i + n
            checks.append((i, n))
            dims.append(('fix', off + stride * i))
        else:
            dims.append(slice_dim(d, item[1], item[2], item[3], knows))
    if it:
        raise Unsupported("too many indices for array")
    return dims, checks
