"""Program state (environment, array heap, python lists, path condition) and array primitives."""
import itertools

import z3

from .values import (FIN, NAN, Base, Mode, SArr, SBool, SFloat, SInt, Unsupported, And, fresh_name,
                     int_sort, merge_values, to_bool, to_float, to_int)

UNSIGNED_BITS = {'uint8': 8, 'uint16': 16, 'uint32': 32, 'uint64': 64, 'bool': 1}
SIGNED_BITS = {'int8': 8, 'int16': 16, 'int32': 32, 'int64': 64}


def elem_sort(elem):
    if elem == 'float':
        return z3.RealSort()
    if elem == 'int':
        return int_sort()
    if elem == 'bool':
        return z3.BoolSort()
    raise Unsupported(f"element kind {elem}")


class State:
    _lids = itertools.count()

    def __init__(self):
        self.env = {}
        self.heap = {}      # base id -> content
        self.lists = {}     # list id -> tuple(items)
        self.pc = []        # list of z3 BoolRef hypotheses
        self.guards = []    # short-circuit guards active while evaluating a sub-expression
        self.dead = False

    def clone(self):
        s = State()
        s.env = dict(self.env)
        s.heap = dict(self.heap)
        s.lists = dict(self.lists)
        s.pc = list(self.pc)
        s.guards = list(self.guards)
        s.dead = self.dead
        return s

    def assume(self, b):
        b = to_bool(b)
        if b.concrete:
            if not b.v and not self.guards:
                self.dead = True
            elif not b.v:
                self.pc.append(z3.Not(z3.And(*self.guards)))
            return
        if self.guards:
            self.pc.append(z3.Implies(z3.And(*self.guards), b.v))
        else:
            self.pc.append(b.v)

    def new_list(self, items):
        from .values import SList
        lid = next(State._lids)
        self.lists[lid] = tuple(items)
        return SList(lid)


# ------------------------------------------------------------------ allocation

def _shape(shape):
    return tuple(to_int(s) for s in shape)


def full_view(base):
    return SArr(base, [('rng', SInt(0), SInt(1), n) for n in base.shape])


def new_sym_array(state, elem, dtype, shape, name='arr', finite=False):
    shape = _shape(shape)
    base = Base(elem, dtype, shape, 'sym', name)
    idx = [int_sort()] * len(shape)
    val = z3.Array(fresh_name(name), *idx, elem_sort(elem))
    tag = None
    if elem == 'float':
        if finite:
            tag = None
        else:
            tag = z3.Array(fresh_name(name + '_t'), *idx, z3.IntSort())
    state.heap[base.id] = {'val': val, 'tag': tag}
    return full_view(base)


def new_conc_array(state, elem, dtype, shape, fill):
    shape = tuple(int(s) for s in shape)
    n = 1
    for s in shape:
        n *= s
    base = Base(elem, dtype, tuple(SInt(s) for s in shape), 'conc', 'c')
    state.heap[base.id] = tuple([fill] * n)
    return full_view(base)


def new_filled_sym_array(state, elem, dtype, shape, fill, name='arr'):
    """np.full/zeros with symbolic shape: a constant array."""
    shape = _shape(shape)
    base = Base(elem, dtype, shape, 'sym', name)
    idx = [int_sort()] * len(shape)
    if elem == 'float':
        f = to_float(fill)
        val = _const_array(idx, f.val)
        tag = None if f.known_finite else _const_array(idx, f.ztag())
    elif elem == 'int':
        val = _const_array(idx, to_int(fill).z())
        tag = None
    else:
        val = _const_array(idx, to_bool(fill).z())
        tag = None
    state.heap[base.id] = {'val': val, 'tag': tag}
    return full_view(base)


def _const_array(idx_sorts, v):
    if len(idx_sorts) == 1:
        return z3.K(idx_sorts[0], v)
    # multi-index constant array: lambda
    vs = [z3.Const(fresh_name('k'), s) for s in idx_sorts]
    return z3.Lambda(vs, v)


# ------------------------------------------------------------------ index arithmetic

def base_index(arr, idxs, ob=None, what='index'):
    """map view indices (one per rng dim) to base indices; emit bounds obligations via ob."""
    idxs = list(idxs)
    out = []
    for d in arr.dims:
        if d[0] == 'fix':
            out.append(d[1])
        else:
            _, off, stride, n = d
            if not idxs:
                raise Unsupported("too few indices")
            i = to_int(idxs.pop(0))
            if i.concrete and i.v < 0:
                i = i + n        # python negative index
            if ob is not None:
                ob(what, And(SInt(0) <= i, i < n))
            out.append(off + stride * i)
    if idxs:
        raise Unsupported("too many indices")
    return out


def _flat_conc(base, bidx):
    if len(base.shape) == 1:
        return bidx[0]
    if len(base.shape) == 2:
        return bidx[0] * base.shape[1] + bidx[1]
    raise Unsupported(">2-d concrete array")


def _wrap_elem(base, state, val, tag=None):
    if base.elem == 'float':
        return SFloat(FIN if tag is None else tag, val)
    if base.elem == 'int':
        return SInt(val)
    return SBool(val)


def read_base(state, base, bidx, assume_types=True):
    content = state.heap[base.id]
    if base.kind == 'conc':
        flat = _flat_conc(base, bidx)
        cells = content
        if flat.concrete:
            if 0 <= flat.v < len(cells):
                return cells[flat.v]
            return _fresh_elem(base)
        # symbolic index into a concrete-shape array: ite chain
        res = cells[-1] if cells else _fresh_elem(base)
        for k in range(len(cells) - 2, -1, -1):
            res = merge_values(flat == k, cells[k], res)
        return res
    zi = [i.z() for i in bidx]
    val = z3.Select(content['val'], *zi)
    val = z3.simplify(val) if _is_const_select(content['val']) else val
    if base.elem == 'float':
        tag = content['tag']
        if tag is None:
            return SFloat(FIN, val)
        t = z3.Select(tag, *zi)
        t = z3.simplify(t) if _is_const_select(tag) else t
        if assume_types and not isinstance(t, z3.IntNumRef):
            state.assume(SBool(z3.And(t >= 0, t <= 3)))
        return SFloat(t, val)
    if base.elem == 'int':
        v = SInt(val)
        if assume_types and not v.concrete and Mode.int_mode == 'math':
            if base.dtype in UNSIGNED_BITS:
                state.assume(SBool(z3.And(val >= 0, val < (1 << UNSIGNED_BITS[base.dtype]))))
        return v
    return SBool(val)


def _is_const_select(arr):
    try:
        return z3.is_K(arr) or z3.is_const_array(arr)
    except Exception:
        return False


def _fresh_elem(base):
    if base.elem == 'float':
        return SFloat.fresh('oob')
    if base.elem == 'int':
        return SInt.fresh('oob')
    return SBool(z3.Bool(fresh_name('oob')))


def coerce_elem(base, v, ob=None):
    """convert a value to the element type of base (numpy store semantics)."""
    if base.elem == 'float':
        return to_float(v)
    if base.elem == 'bool':
        return to_bool(v)
    if isinstance(v, SFloat):
        raise Unsupported("float stored into integer array")
    v = to_int(v)
    if base.dtype in UNSIGNED_BITS and base.dtype != 'bool':
        bits = UNSIGNED_BITS[base.dtype]
        if Mode.int_mode == 'bv64':
            if bits < 64:
                v = v & ((1 << bits) - 1)
        elif ob is not None:
            ob('range', And(SInt(0) <= v, v < SInt(1 << bits)))
    elif base.dtype in SIGNED_BITS and SIGNED_BITS[base.dtype] < 64:
        bits = SIGNED_BITS[base.dtype]
        if Mode.int_mode == 'bv64':
            raise Unsupported("narrow signed store in bv mode")
        if ob is not None:
            ob('range', And(SInt(-(1 << (bits - 1))) <= v, v < SInt(1 << (bits - 1))))
    return v


def write_base(state, base, bidx, v):
    content = state.heap[base.id]
    if base.kind == 'conc':
        flat = _flat_conc(base, bidx)
        cells = list(content)
        if flat.concrete:
            if 0 <= flat.v < len(cells):
                cells[flat.v] = v
        else:
            for k in range(len(cells)):
                cells[k] = merge_values(flat == k, v, cells[k])
        state.heap[base.id] = tuple(cells)
        return
    zi = [i.z() for i in bidx]
    new = dict(content)
    if base.elem == 'float':
        new['val'] = z3.Store(content['val'], *zi, v.val)
        if content['tag'] is None:
            if not v.known_finite:
                # array was statically finite; it no longer is
                idx = [int_sort()] * len(bidx)
                new['tag'] = z3.Store(_const_array(idx, z3.IntVal(FIN)), *zi, v.ztag())
        else:
            new['tag'] = z3.Store(content['tag'], *zi, v.ztag())
    else:
        new['val'] = z3.Store(content['val'], *zi, v.z())
    state.heap[base.id] = new


def read(state, arr, idxs, ob=None):
    return read_base(state, arr.base, base_index(arr, idxs, ob, 'index'))


def write(state, arr, idxs, v, ob=None):
    bidx = base_index(arr, idxs, ob, 'store')
    write_base(state, arr.base, bidx, coerce_elem(arr.base, v, ob))


def havoc_base(state, base):
    if base.kind == 'conc':
        state.heap[base.id] = tuple(_fresh_elem(base) for _ in state.heap[base.id])
        return
    idx = [int_sort()] * len(base.shape)
    content = state.heap[base.id]
    new = {'val': z3.Array(fresh_name(base.name + '_h'), *idx, elem_sort(base.elem)), 'tag': None}
    if base.elem == 'float':
        new['tag'] = z3.Array(fresh_name(base.name + '_ht'), *idx, z3.IntSort())
    state.heap[base.id] = new


# ------------------------------------------------------------------ slicing

def _clamp(x, lo, hi):
    """clamp x into [lo, hi] (hi >= lo assumed)."""
    x = to_int(x)
    if x.concrete and lo.concrete and hi.concrete:
        return SInt(max(lo.v, min(hi.v, x.v)))
    r = merge_values(x < lo, lo, x)
    return merge_values(r > hi, hi, r)


def _norm_bound(b, n):
    b = to_int(b)
    if b.concrete and b.v < 0:
        return b + n
    return b


def slice_dim(dim, lo, hi, step):
    """apply python slice lo:hi:step (None allowed) to a ('rng', off, stride, n) dim."""
    _, off, stride, n = dim
    step = SInt(1) if step is None else to_int(step)
    if not step.concrete:
        raise Unsupported("symbolic slice step")
    if step.v > 0:
        lo = SInt(0) if lo is None else _clamp(_norm_bound(lo, n), SInt(0), n)
        hi = n if hi is None else _clamp(_norm_bound(hi, n), SInt(0), n)
        span = hi - lo
        if step.v == 1:
            cnt = span
        else:
            cnt = (span + (step.v - 1)) // step.v
        if cnt.concrete:
            cnt = SInt(max(cnt.v, 0))
        else:
            cnt = merge_values(cnt < 0, SInt(0), cnt)
        return ('rng', off + stride * lo, stride * step, cnt)
    if step.v == -1 and lo is None and hi is None:
        return ('rng', off + stride * (n - 1), SInt(0) - stride, n)
    raise Unsupported("negative slice step with explicit bounds")


def apply_index(arr, items):
    """numpy basic indexing: items is a list of ('idx', SInt) | ('slice', lo, hi, step) per rng dim.
    returns (new dims, checks) where checks are (index, length) pairs to be bounds-checked"""
    dims = []
    checks = []
    it = list(items)
    for d in arr.dims:
        if d[0] == 'fix':
            dims.append(d)
            continue
        if not it:
            dims.append(d)
            continue
        item = it.pop(0)
        if item[0] == 'idx':
            _, off, stride, n = d
            i = to_int(item[1])
            if i.concrete and i.v < 0:
                i = i + n
            checks.append((i, n))
            dims.append(('fix', off + stride * i))
        else:
            dims.append(slice_dim(d, item[1], item[2], item[3]))
    if it:
        raise Unsupported("too many indices for array")
    return dims, checks
