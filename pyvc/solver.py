"""Discharge obligations: one forked process per obligation (16 at a time), z3 5.1 in-process first,
then the same SMT-LIB text to /usr/bin/cvc5 and /usr/bin/z3 (4.8) when z3 answers unknown (DESIGN 3.5).

Statuses: 'proved' (the obligation is discharged), 'failed' (its negation is satisfiable / a guard
is vacuous), 'unknown' (all back ends undecided or timed out: the run is UNDECIDED, never a violation).
"""
import json
import os
import select
import signal
import subprocess
import sys
import tempfile
import time
from fractions import Fraction

import z3

CVC5 = '/usr/bin/cvc5'
Z3_OLD = '/usr/bin/z3'
CELL_CAP = 48


class Result:
    def __init__(self, status, backend, time_s, model=None, detail=''):
        self.status = status
        self.backend = backend
        self.time_s = time_s
        self.model = model
        self.detail = detail

    def to_json(self):
        return {'status': self.status, 'backend': self.backend, 'time_s': round(self.time_s, 3),
                'model': self.model, 'detail': self.detail}


# ---------------------------------------------------------------------- model extraction

def _num(m, t):
    v = m.eval(t, model_completion=True)
    if z3.is_int_value(v):
        return v.as_long()
    if z3.is_bv_value(v):
        return v.as_signed_long()
    if z3.is_rational_value(v):
        fr = Fraction(v.numerator_as_long(), v.denominator_as_long())
        return {'num': fr.numerator, 'den': fr.denominator}
    if z3.is_algebraic_value(v):
        a = v.approx(20)
        fr = Fraction(a.numerator_as_long(), a.denominator_as_long())
        return {'num': fr.numerator, 'den': fr.denominator, 'approx': True}
    if z3.is_true(v):
        return True
    if z3.is_false(v):
        return False
    return str(v)


def eval_spec(m, spec):
    kind = spec[0]
    try:
        if kind == 'int':
            return {'k': 'int', 'v': _num(m, spec[1])}
        if kind == 'bool':
            return {'k': 'bool', 'v': _num(m, spec[1])}
        if kind == 'float':
            return {'k': 'float', 'tag': _num(m, spec[1]), 'v': _num(m, spec[2])}
        if kind == 'tuple':
            return {'k': 'tuple', 'items': [eval_spec(m, x) for x in spec[1]]}
        if kind == 'list':
            return {'k': 'list', 'items': [eval_spec(m, x) for x in spec[1]]}
        if kind == 'record':
            return {'k': 'record', 'cls': spec[1], 'fields': {k: eval_spec(m, x) for k, x in spec[2].items()}}
        if kind == 'func':
            return {'k': 'func', 'name': spec[1]}
        if kind == 'carr':
            _, elem, dtype, cells, shape, dims = spec
            return {'k': 'array', 'elem': elem, 'dtype': dtype, 'shape': [_num(m, x) for x in shape],
                    'cells': [eval_spec(m, c) if c is not None else None for c in cells], 'dims': _dims(m, dims)}
        if kind == 'arr':
            _, elem, dtype, val, tag, shape, dims = spec
            shp = [_num(m, x) for x in shape]
            out = {'k': 'array', 'elem': elem, 'dtype': dtype, 'shape': shp, 'dims': _dims(m, dims)}
            if all(isinstance(x, int) for x in shp):
                cells = []
                if len(shp) == 1:
                    idxs = [(i,) for i in range(min(max(shp[0], 0), CELL_CAP))]
                else:
                    idxs = [(i, j) for i in range(min(max(shp[0], 0), CELL_CAP)) for j in range(min(max(shp[1], 0), 16))]
                for ix in idxs:
                    zi = [z3.IntVal(i) if not z3.is_bv_sort(val.domain()) else z3.BitVecVal(i, 64) for i in ix]
                    c = {'i': list(ix), 'v': _num(m, z3.Select(val, *zi))}
                    if tag is not None:
                        c['tag'] = _num(m, z3.Select(tag, *zi))
                    cells.append(c)
                out['cells'] = cells
            return out
    except Exception as e:   # model extraction is best effort
        return {'k': 'error', 'detail': f'{type(e).__name__}: {e}'}
    return {'k': 'other', 'repr': str(spec[1]) if len(spec) > 1 else ''}


def _dims(m, dims):
    out = []
    for d in dims:
        out.append([d[0]] + [_num(m, x) if isinstance(x, z3.ExprRef) else x for x in d[1:]])
    return out


# ---------------------------------------------------------------------- one obligation

def _external(smt2, cmd, timeout_s):
    with tempfile.NamedTemporaryFile('w', suffix='.smt2', delete=False, dir=os.environ.get('PYVC_TMP')) as f:
        f.write(smt2)
        path = f.name
    try:
        p = subprocess.run(cmd + [path], capture_output=True, text=True, timeout=timeout_s)
        out = (p.stdout or '').strip().splitlines()
        ans = out[0].strip() if out else 'unknown'
        if ans not in ('sat', 'unsat'):
            ans = 'unknown'
        return ans
    except (subprocess.TimeoutExpired, OSError):
        return 'unknown'
    finally:
        try:
            os.unlink(path)
        except OSError:
            pass


def _symbols(t, cache):
    tid = t.get_id()
    if tid in cache:
        return cache[tid]
    out = set()
    stack = [t]
    seen = set()
    while stack:
        x = stack.pop()
        xid = x.get_id()
        if xid in seen:
            continue
        seen.add(xid)
        if z3.is_quantifier(x):
            stack.append(x.body())
        elif z3.is_app(x):
            d = x.decl()
            if d.kind() == z3.Z3_OP_UNINTERPRETED:
                out.add(d.name())
            stack.extend(x.children())
    cache[tid] = out
    return out


def _has_q(t):
    stack = [t]
    seen = set()
    while stack:
        x = stack.pop()
        if x.get_id() in seen:
            continue
        seen.add(x.get_id())
        if z3.is_quantifier(x):
            return True
        if z3.is_app(x):
            stack.extend(x.children())
    return False


def select_hyps(hyps, goal, depth, tol=2.0):
    """SInE-style relevance filter (sound: proving from fewer hypotheses).  All quantifier-free
    hypotheses are kept; a quantified hypothesis is kept when one of its rarest symbols is relevant."""
    cache = {}
    qf, qs = [], []
    for h in hyps:
        (qs if _has_q(h) else qf).append(h)
    occ = {}
    for h in qs:
        for sy in _symbols(h, cache):
            occ[sy] = occ.get(sy, 0) + 1
    relevant = set(_symbols(goal, cache))
    for h in qf:
        pass
    chosen = set()
    for _ in range(depth):
        added = False
        for k, h in enumerate(qs):
            if k in chosen:
                continue
            syms = _symbols(h, cache)
            if not syms:
                chosen.add(k)
                continue
            m = min(occ[sy] for sy in syms)
            trig = [sy for sy in syms if occ[sy] <= tol * m]
            if any(sy in relevant for sy in trig):
                chosen.add(k)
                added = True
        for k in chosen:
            relevant |= _symbols(qs[k], cache)
        # quantifier-free facts that mention relevant symbols make more symbols relevant
        for h in qf:
            sy = _symbols(h, cache)
            if sy & relevant:
                relevant |= sy
        if not added:
            break
    return qf + [qs[k] for k in sorted(chosen)], len(qs)


def _mk_solver(ob, timeout_s, seed):
    tac = getattr(ob, 'tactic', None)
    s = z3.Tactic(tac).solver() if tac else z3.Solver()
    s.set('timeout', int(timeout_s * 1000))
    if not tac:
        s.set('random_seed', seed % (2 ** 30))
    for k, v in (getattr(ob, 'solver_opts', None) or {}).items():
        s.set(k, v)
    return s


def solve_one(ob, timeout_s, seed, use_fallback=True):
    from .contracts import spec_unfoldings
    t0 = time.time()
    if ob.expect != 'valid':
        timeout_s = min(timeout_s, 20)   # vacuity guards: inconclusive is tolerated, keep them cheap
    backend = 'z3-5.1'
    if (ob.expect == 'valid' and 'skolemize-goal' in (getattr(ob, 'flags', None) or ()) and z3.is_quantifier(ob.goal)
            and ob.goal.is_forall()):
        # forall-introduction: prove the body for fresh constants (so that spec functions applied to the bound
        # variables become ground applications and are unfolded)
        g = ob.goal
        consts = [z3.FreshConst(g.var_sort(k), 'sk_' + g.var_name(k)) for k in range(g.num_vars())]
        ob.goal = z3.substitute_vars(g.body(), *reversed(consts))
    unfold = spec_unfoldings(list(ob.hyps) + [ob.goal], fuel=getattr(ob, 'fuel', 1))
    nq = sum(1 for h in ob.hyps if _has_q(h))
    if ob.expect == 'valid' and nq >= 1 and not getattr(ob, 'tactic', None):
        # phase 1: restart portfolio.  Proofs of these VCs, when z3 finds them, are found in well under a
        # second; whether it finds them is sensitive to the search order.  So: several short attempts with
        # different seeds, alternating E-matching only (no model-based instantiation, as Boogie/Dafny
        # configure z3) and the default configuration.  'unknown' in this phase decides nothing.
        short = max(2.0, timeout_s * 0.05)
        for attempt in range(6):
            s0 = _mk_solver(ob, short, seed)
            if attempt % 2 == 0:
                s0.set('auto_config', False)
                s0.set('smt.mbqi', False)
            s0.set('smt.random_seed', attempt * 7 + 1)
            hy = list(ob.hyps) + list(unfold)
            if attempt >= 2:
                import random as _r
                _r.Random(attempt).shuffle(hy)
            for h in hy:
                s0.add(h)
            s0.add(z3.Not(ob.goal))
            if str(s0.check()) == 'unsat':
                return Result('proved', 'z3-5.1/ematch' if attempt % 2 == 0 else 'z3-5.1/restart', time.time() - t0, None, '')
    # phase 2 (sound shortcut): prove from a relevance-selected subset of the quantified hypotheses
    if ob.expect == 'valid' and nq >= 6:
        for depth, share in ((2, 0.2),):
            sel, _n = select_hyps(list(ob.hyps) + unfold, ob.goal, depth)
            s1 = _mk_solver(ob, max(2.0, timeout_s * share), seed)
            for h in sel:
                s1.add(h)
            s1.add(z3.Not(ob.goal))
            if str(s1.check()) == 'unsat':
                return Result('proved', f'z3-5.1/sine{depth}', time.time() - t0, None, '')
    s = _mk_solver(ob, timeout_s, seed)
    for h in ob.hyps:
        s.add(h)
    if ob.expect == 'sat':
        s.add(ob.goal)
    else:
        s.add(z3.Not(ob.goal))
    for eq in unfold:
        s.add(eq)
    r = s.check()
    ans = str(r)
    if ans == 'unknown' and use_fallback:
        remaining = max(5.0, timeout_s - (time.time() - t0))
        try:
            smt2 = s.to_smt2()
        except Exception:
            smt2 = None
        if smt2:
            a2 = _external(smt2, [CVC5, '--lang=smt2', f'--tlimit={int(remaining * 1000)}'], remaining + 5)
            if a2 != 'unknown':
                ans, backend = a2, 'cvc5-1.0.3'
            else:
                a3 = _external(smt2, [Z3_OLD, f'-T:{int(remaining)}'], remaining + 5)
                if a3 != 'unknown':
                    ans, backend = a3, 'z3-4.8.12'
    dt = time.time() - t0
    model = None
    if ans == 'sat' and backend == 'z3-5.1':
        m = s.model()
        if ob.expect == 'valid' and ob.model:
            m = _refine_model(s, m, ob) or m
        model = {k: eval_spec(m, v) for k, v in ob.model.items()}
    if ob.expect == 'valid':
        status = {'unsat': 'proved', 'sat': 'failed'}.get(ans, 'unknown')
    elif ob.expect == 'sat':
        status = {'sat': 'proved', 'unsat': 'failed'}.get(ans, 'unknown')
    else:   # refutable
        status = {'sat': 'proved', 'unsat': 'failed'}.get(ans, 'unknown')
    detail = s.reason_unknown() if ans == 'unknown' and backend == 'z3-5.1' else ''
    return Result(status, backend, dt, model, detail)


def _float_terms(spec, m, out, lens):
    kind = spec[0]
    if kind == 'float':
        out.append(spec[2])
    elif kind in ('tuple', 'list'):
        for x in spec[1]:
            _float_terms(x, m, out, lens)
    elif kind == 'record':
        for x in spec[2].values():
            _float_terms(x, m, out, lens)
    elif kind == 'carr':
        for c in spec[3]:
            if c is not None:
                _float_terms(c, m, out, lens)
    elif kind == 'arr':
        _, elem, dtype, val, tag, shape, dims = spec
        shp = []
        for x in shape:
            v = m.eval(x, model_completion=True)
            shp.append(v.as_long() if z3.is_int_value(v) else None)
            if not z3.is_int_value(x):
                lens.append(x)
        if elem == 'float' and all(isinstance(x, int) for x in shp):
            if len(shp) == 1:
                for i in range(min(max(shp[0], 0), CELL_CAP)):
                    out.append(z3.Select(val, z3.IntVal(i)))
            elif len(shp) == 2:
                for i in range(min(max(shp[0], 0), CELL_CAP)):
                    for j in range(min(max(shp[1], 0), 16)):
                        out.append(z3.Select(val, z3.IntVal(i), z3.IntVal(j)))


def _int_terms(spec, out):
    kind = spec[0]
    if kind == 'int':
        if not z3.is_int_value(spec[1]):
            out.append(spec[1])
    elif kind in ('tuple', 'list'):
        for x in spec[1]:
            _int_terms(x, out)
    elif kind == 'record':
        for x in spec[2].values():
            _int_terms(x, out)


def _refine_model(s, m, ob):
    """look for a counter-model that can be replayed exactly: short arrays, small integers, float inputs that
    are small (quarter-)integers.  Tried in decreasing order of niceness; the first satisfiable one wins."""
    try:
        terms, lens, ints = [], [], []
        for spec in ob.model.values():
            _float_terms(spec, m, terms, lens)
            _int_terms(spec, ints)
        if not terms and not lens and not ints:
            return None
        best = None
        for cap, fl in ((4, 'int'), (8, 'int'), (8, 'quarter'), (24, 'quarter'), (None, 'int'), (None, None)):
            s.push()
            try:
                s.set('timeout', 8000)
                for ln in lens:
                    if cap is not None:
                        s.add(ln <= cap)
                if cap is not None:
                    for it in ints:
                        s.add(it <= 4 * cap, it >= -4 * cap)
                m_len = s.model() if False else None
                if fl is not None:
                    # float cells of arrays: enumerate cells of the (now short) arrays
                    cells = list(terms)
                    if cap is not None:
                        cells = []
                        for spec in ob.model.values():
                            _float_cells_upto(spec, cap, cells)
                    for t in cells:
                        if fl == 'int':
                            s.add(z3.IsInt(t), t >= -64, t <= 64)
                        else:
                            s.add(z3.IsInt(t * 4), t >= -1024, t <= 1024)
                if str(s.check()) == 'sat':
                    best = s.model()
            finally:
                s.pop()
            if best is not None:
                return best
        return None
    except Exception:
        return None


def _float_cells_upto(spec, cap, out):
    kind = spec[0]
    if kind == 'float':
        out.append(spec[2])
    elif kind in ('tuple', 'list'):
        for x in spec[1]:
            _float_cells_upto(x, cap, out)
    elif kind == 'record':
        for x in spec[2].values():
            _float_cells_upto(x, cap, out)
    elif kind == 'carr':
        for c in spec[3]:
            if c is not None:
                _float_cells_upto(c, cap, out)
    elif kind == 'arr':
        _, elem, dtype, val, tag, shape, dims = spec
        if elem == 'float':
            if len(shape) == 1:
                for i in range(cap):
                    out.append(z3.Select(val, z3.IntVal(i)))
            elif len(shape) == 2:
                for i in range(cap):
                    for j in range(min(cap, 8)):
                        out.append(z3.Select(val, z3.IntVal(i), z3.IntVal(j)))


# ---------------------------------------------------------------------- pool

def solve_all(obligs, jobs=16, timeout_s=60, seed=0, progress=None, use_fallback=True):
    """returns {ob.id: Result}.  Each obligation runs in its own forked child."""
    results = {}
    pending = list(obligs)
    pending.reverse()
    running = {}   # fd -> (pid, ob, start, buf)
    hard = timeout_s * 2.5 + 20
    while pending or running:
        while pending and len(running) < jobs:
            ob = pending.pop()
            r, w = os.pipe()
            pid = os.fork()
            if pid == 0:
                os.close(r)
                try:
                    res = solve_one(ob, timeout_s, seed, use_fallback)
                    payload = json.dumps(res.to_json())
                except BaseException as e:  # noqa
                    payload = json.dumps({'status': 'error', 'backend': 'z3-5.1', 'time_s': 0, 'model': None,
                                          'detail': f'{type(e).__name__}: {e}'})
                try:
                    with os.fdopen(w, 'w') as f:
                        f.write(payload)
                finally:
                    os._exit(0)
            os.close(w)
            running[r] = [pid, ob, time.time(), b'', (hard if ob.expect == 'valid' else 45)]
        if not running:
            continue
        ready, _, _ = select.select(list(running), [], [], 0.5)
        now = time.time()
        for fd in list(running):
            pid, ob, start, buf, limit = running[fd]
            done = False
            if fd in ready:
                chunk = os.read(fd, 1 << 16)
                if chunk:
                    running[fd][3] = buf + chunk
                else:
                    done = True
            if done:
                os.close(fd)
                try:
                    os.waitpid(pid, 0)
                except ChildProcessError:
                    pass
                try:
                    j = json.loads(running[fd][3].decode() or '{}')
                    results[ob.id] = Result(j.get('status', 'error'), j.get('backend', '?'), j.get('time_s', 0.0),
                                            j.get('model'), j.get('detail', ''))
                except Exception as e:
                    results[ob.id] = Result('error', '?', now - start, None, f'bad child output: {e}')
                del running[fd]
                if progress:
                    progress(ob, results[ob.id])
            elif now - start > limit:
                try:
                    os.kill(pid, signal.SIGKILL)
                    os.waitpid(pid, 0)
                except OSError:
                    pass
                os.close(fd)
                results[ob.id] = Result('unknown', 'timeout', now - start, None, 'hard timeout')
                del running[fd]
                if progress:
                    progress(ob, results[ob.id])
    return results
