"""Property runner:  python3-vt -m pyvc.run <ID> [--tier quick|thorough] [--replay file]

Exit codes (DESIGN 9): 0 every obligation discharged (known findings printed); 1 violation (one
`VIOLATION property=<id> replay=<path>` line per failed obligation); 2 undecided; 3 checker fault.
"""
import argparse
import importlib
import json
import os
import sys
import time
import traceback

sys.setrecursionlimit(20000)

HERE = os.path.dirname(os.path.abspath(__file__))
ROOT = os.path.dirname(HERE)
sys.path.insert(0, ROOT)

from pyvc import extract  # noqa: E402
from pyvc.contracts import Registry  # noqa: E402
from pyvc.engine import Engine  # noqa: E402
from pyvc.lemmas import lemma_obligations  # noqa: E402
from pyvc.solver import solve_all  # noqa: E402
from pyvc.values import Unsupported  # noqa: E402
from pyvc import replay as rp  # noqa: E402
from pyvc import witness  # noqa: E402


def load_plan():
    return importlib.import_module('contracts.plan').PLAN


def load_known():
    path = os.path.join(ROOT, 'known_findings.json')
    if not os.path.exists(path):
        return {'open': [], 'fixed': []}
    with open(path) as f:
        return json.load(f)


def build(prop, tier, plan):
    reg = Registry()
    for m in plan['modules']:
        mod = importlib.import_module('contracts.' + m)
        mod.register(reg, tier=tier) if 'tier' in mod.register.__code__.co_varnames else mod.register(reg)
    return reg


def generate(prop, reg, tier, plan):
    eng = Engine(reg)
    undecided = []
    done = set()
    work = [c for c in reg.by_target.values() if prop in c.props and not c.trusted]
    while work:
        c = work.pop(0)
        if c.target in done:
            continue
        done.add(c.target)
        for cfg in (c.configs or [None]):
            try:
                eng.verify(c, cfg)
            except Unsupported as e:
                undecided.append((c.target, cfg, f'unsupported: {e}'))
            except extract.ExtractionError as e:
                undecided.append((c.target, cfg, f'extraction: {e}'))
            except Exception as e:   # an engine crash on one function must not pass silently
                undecided.append((c.target, cfg, f'engine error: {type(e).__name__}: {e}\n{traceback.format_exc(limit=6)}'))
        info = eng.functions.get(c.target, {})
        for callee in sorted(info.get('calls', ())):
            cc = reg.by_target[callee]
            if not cc.trusted and callee not in done:
                work.append(cc)
    obs = list(eng.obligs)
    lemmas = [l for l in reg.lemmas.values() if prop in l.props or l.name in reg.used_lemmas]
    for lem in lemmas:
        try:
            obs += lemma_obligations(reg, lem)
        except Exception as e:
            undecided.append(('lemma::' + lem.name, None, f'lemma generation: {type(e).__name__}: {e}'))
    return eng, obs, undecided, sorted(done), lemmas


def trusted_of(reg, eng):
    out = []
    for c in reg.by_target.values():
        if c.trusted:
            out.append(f"assumed contract (not verified): {c.target} {c.note}")
    return out


def write_replay(prop, ob, res, rep, extra=None):
    d = os.path.join(ROOT, 'replays')
    os.makedirs(d, exist_ok=True)
    safe = ''.join(ch if ch.isalnum() or ch in '-_.' else '_' for ch in ob.name)[:150]
    path = os.path.join(d, f'{prop}-{safe}.json')
    doc = {'property': prop, 'obligation': ob.name, 'function': ob.func, 'kind': ob.kind, 'label': ob.label,
           'line': ob.lineno, 'config': ob.config, 'solver': res.to_json(), 'replay': rep}
    if extra:
        doc.update(extra)
    with open(path, 'w') as f:
        json.dump(doc, f, indent=1, default=str)
    return path


def main(argv=None):
    ap = argparse.ArgumentParser()
    ap.add_argument('prop')
    ap.add_argument('--tier', default=os.environ.get('VERIF_TIER', 'quick'))
    ap.add_argument('--replay')
    ap.add_argument('--jobs', type=int, default=int(os.environ.get('PYVC_JOBS', '16')))
    ap.add_argument('--timeout', type=float, default=None)
    a = ap.parse_args(argv)
    prop, tier = a.prop, a.tier if a.tier in ('quick', 'thorough') else 'quick'
    seed = int(os.environ.get('VERIF_SEED', '0') or 0)
    t0 = time.time()
    PLAN = load_plan()
    if prop not in PLAN:
        print(f"unknown or not-applicable property {prop}")
        return 3
    plan = PLAN[prop]
    if a.replay:
        return do_replay_file(prop, a.replay, plan)
    timeout = a.timeout or plan.get('timeout', {}).get(tier, 60 if tier == 'quick' else 300)
    reg = build(prop, tier, plan)
    eng, obs, undecided, functions, lemmas = generate(prop, reg, tier, plan)
    # extra, property-specific stages (bounded stand-ins, probes)
    extra_cov = {}
    stage_fail = []
    stage_faults = []
    for stage in plan.get('stages', []):
        fn = getattr(importlib.import_module('contracts.' + stage[0]), stage[1])
        r = fn(prop=prop, tier=tier, seed=seed, reg=reg)
        extra_cov[stage[1]] = r.get('coverage', {})
        stage_fail += r.get('failures', [])
        if r.get('fault'):
            stage_faults.append(r['fault'])
    if not obs and not plan.get('stand_in_only'):
        print(f"CHECKER-FAULT property={prop}: zero obligations generated")
        write_evidence(prop, tier, seed, plan, reg, eng, [], {}, undecided, functions, lemmas, t0, 0, [], extra_cov, fault=True)
        return 3
    # solver seeds are fixed by the portfolio (verdicts must not depend on VERIF_SEED); VERIF_SEED drives the
    # generated inputs of the witness search and of the run-time checked contracts
    res = solve_all(obs, jobs=a.jobs, timeout_s=timeout, seed=0) if obs else {}
    failed = [o for o in obs if res[o.id].status == 'failed']
    unknown = [o for o in obs if res[o.id].status in ('unknown', 'error') and o.expect == 'valid']
    guard_unknown = [o for o in obs if res[o.id].status in ('unknown', 'error') and o.expect != 'valid']
    faults = [o for o in failed if o.expect == 'sat']
    # canaries: a function (configuration) is vacuous only if `ensures False` is provable on ALL its return paths
    groups = {}
    for o in obs:
        if o.expect == 'refutable':
            groups.setdefault((o.func, json.dumps(o.config or None, sort_keys=True)), []).append(o)
    for key, members in groups.items():
        if all(res[o.id].status == 'failed' for o in members):
            faults.append(members[0])
    real_fail = [o for o in failed if o.expect == 'valid']
    known = load_known()
    violations = []
    known_hits = []
    for ob in real_fail:
        kf = match_known(prop, ob, known)
        if kf is not None:
            known_hits.append((ob, kf))
            continue
        rep = None
        c = reg.by_target.get(ob.func)
        note = ''
        if c is not None:
            try:
                rep = rp.replay_failure(c, ob, res[ob.id])
            except rp.ReplayError as e:
                note = f'replay not possible: {e}'
            except Exception as e:
                note = f'replay error: {type(e).__name__}: {e}'
        confirmed = bool(rep and rep.get('confirmed'))
        path = write_replay(prop, ob, res[ob.id], rep, {'note': note, 'confirmed_on_real_code': confirmed})
        violations.append((ob, path, confirmed))
    for sf in stage_fail:
        violations.append((None, sf['replay'], sf.get('confirmed', True)))
    # witness search: (a) functions with undecided or unconfirmed obligations - look for a failing input on
    # the real code; (b) every function under contract - cross-check engine semantics vs the compiled code
    n_cross = plan.get('crosscheck', {}).get(tier, 6 if tier == 'quick' else 60)
    need = {}
    for ob in unknown:
        need.setdefault((ob.func, json.dumps(ob.config or None, sort_keys=True)), []).append(ob)
    for ob, path, confirmed in violations:
        if ob is not None and not confirmed:
            need.setdefault((ob.func, json.dumps(ob.config or None, sort_keys=True)), []).append(ob)
    # functions the engine could not execute (construct outside the subset after a source change): look for a
    # failing input of their contract on the real code; none found = still undecided
    for t, cfg, why in undecided:
        if t in reg.by_target:
            need.setdefault((t, json.dumps(cfg or None, sort_keys=True)), [])
    wit_stats = {'functions': 0, 'evaluations': 0, 'witnesses': 0, 'skipped': []}
    witnessed_funcs = set()
    seen_fc = set()
    targets = []
    for key in need:
        targets.append((key, 200))
    n_stand = plan.get('stand_in_n', {}).get(tier, 80 if tier == 'quick' else 800)
    bounded = []
    for t in functions:
        c = reg.by_target[t]
        for cfg in (c.configs or [None])[:2]:
            key = (t, json.dumps(cfg or None, sort_keys=True))
            if key not in need:
                targets.append((key, n_stand if c.stand_in else n_cross))
        if c.stand_in:
            bounded.append({'function': t, 'obligations_not_proved': sorted(eng.functions.get(t, {}).get('stand_in', {})),
                            'stand_in': f'contract evaluated at run time on the real code for {n_stand} generated inputs '
                                        f'satisfying requires (never counted in discharged)'})
    extra_cov['bounded'] = bounded
    jobs_w = []
    for (t, cfgs), n in targets:
        if (t, cfgs) in seen_fc or n <= 0:
            continue
        seen_fc.add((t, cfgs))
        c = reg.by_target.get(t)
        if c is None or c.trusted:
            continue
        jobs_w.append((t, cfgs, n))

    def _search(job):
        t, cfgs, n = job
        c = reg.by_target[t]
        try:
            return job, witness.search(c, json.loads(cfgs), n, seed + 1,
                                       budget_s=(None if (t, cfgs) in need else (10 if tier == 'quick' else 120))), None
        except Exception as e:
            return job, None, f'{t}: {type(e).__name__}: {str(e)[:120]}'

    results_w = _parallel_map(_search, jobs_w, min(8, a.jobs))
    for (t, cfgs, n), r, err in results_w:
        cfg = json.loads(cfgs)
        if err is not None or r is None:
            wit_stats['skipped'].append(err or f'{t}: no result')
            continue
        wit_stats['functions'] += 1
        wit_stats['evaluations'] += r['evaluated']
        if r['witness'] is not None:
            wit_stats['witnesses'] += 1
            witnessed_funcs.add((t, cfgs))
            obs_here = need.get((t, cfgs), [])
            ob0 = obs_here[0] if obs_here else None
            doc_ob = ob0 or type('O', (), {'name': f'{t.split("::")[-1]}#contract-on-real-code', 'func': t, 'kind': 'witness',
                                           'label': ','.join(r['witness']['check']['violated']), 'lineno': 0, 'config': cfg})()
            from pyvc.solver import Result
            res0 = res.get(ob0.id) if ob0 is not None else Result('n/a', 'witness-search', 0.0)
            path = write_replay(prop, doc_ob, res0, {'confirmed': True, **r['witness']},
                                {'note': 'failing input found by contract-guided search on the real code',
                                 'confirmed_on_real_code': True})
            violations = [v for v in violations if not (v[0] is not None and v[0].func == t and not v[2])]
            violations.append((doc_ob, path, True))
    # obligations of a function for which a confirmed failing input exists are explained by it
    unknown = [o for o in unknown if (o.func, json.dumps(o.config or None, sort_keys=True)) not in witnessed_funcs]
    undecided = [u for u in undecided if (u[0], json.dumps(u[1] or None, sort_keys=True)) not in witnessed_funcs]
    extra_cov['contract_runtime_crosscheck'] = wit_stats
    rc = 0
    for ob, kf in known_hits:
        print(f"KNOWN-FINDING: property={prop} {kf['what']} [obligation {ob.name}]")
    # stale known findings are reported (not an error)
    for ob, path, confirmed in violations:
        tail = '' if confirmed else ' no-failing-input-found'
        print(f"VIOLATION property={prop} replay={path}{tail}")
        rc = 1
    if faults or stage_faults:
        for ob in faults:
            print(f"CHECKER-FAULT property={prop}: vacuity guard failed: {ob.name}")
        for sf in stage_faults:
            print(f"CHECKER-FAULT property={prop}: {sf}")
        rc = max(rc, 3) if rc != 1 else 1
    if (unknown or undecided) and rc == 0:
        rc = 2
    for ob in unknown:
        print(f"UNDECIDED property={prop} obligation={ob.name} ({res[ob.id].backend}: {res[ob.id].detail})")
    for t, cfg, why in undecided:
        print(f"UNDECIDED property={prop} function={t} config={cfg}: {why}")
    write_evidence(prop, tier, seed, plan, reg, eng, obs, res, undecided, functions, lemmas, t0, len(violations),
                   known_hits, extra_cov)
    n_ok = sum(1 for o in obs if res[o.id].status == 'proved')
    print(f"[{prop} {tier}] obligations={len(obs)} discharged={n_ok} failed={len(real_fail)} unknown={len(unknown)} "
          f"undecided_functions={len(undecided)} wall={time.time() - t0:.1f}s exit={rc}")
    return rc


def _parallel_map(fn, items, nproc):
    """fork-based map (the items need z3 objects living in this process, so no pickling of inputs)"""
    import multiprocessing as mp
    if not items:
        return []
    if nproc <= 1 or len(items) == 1:
        return [fn(x) for x in items]
    ctx = mp.get_context('fork')
    out = [None] * len(items)
    pending = list(enumerate(items))
    running = []
    while pending or running:
        while pending and len(running) < nproc:
            i, item = pending.pop(0)
            rd, wr = ctx.Pipe(duplex=False)

            def work(conn, item=item):
                try:
                    conn.send(fn(item))
                except BaseException as e:  # noqa
                    conn.send((item, None, f'{type(e).__name__}: {e}'))
                finally:
                    conn.close()
            p = ctx.Process(target=work, args=(wr,))
            p.start()
            wr.close()
            running.append((i, p, rd))
        still = []
        for i, p, rd in running:
            if rd.poll(0.05):
                try:
                    out[i] = rd.recv()
                except EOFError:
                    out[i] = (items[i], None, 'worker died')
                p.join()
            elif not p.is_alive():
                try:
                    out[i] = rd.recv() if rd.poll(0.1) else (items[i], None, 'worker died')
                except EOFError:
                    out[i] = (items[i], None, 'worker died')
                p.join()
            else:
                still.append((i, p, rd))
        running = still
    return out


def match_known(prop, ob, known):
    for kf in known.get('open', []):
        if kf.get('property') != prop:
            continue
        if kf.get('function') == ob.func and kf.get('obligation') in ob.name:
            return kf
    return None


def write_evidence(prop, tier, seed, plan, reg, eng, obs, res, undecided, functions, lemmas, t0, nviol, known_hits,
                   extra_cov, fault=False):
    by_backend = {}
    solver_time = 0.0
    for o in obs:
        r = res.get(o.id)
        if r is None:
            continue
        by_backend[r.backend] = by_backend.get(r.backend, 0) + 1
        solver_time += r.time_s
    proved = [o for o in obs if res.get(o.id) and res[o.id].status == 'proved']
    real = [o for o in obs if o.expect == 'valid']
    discharged_real = [o for o in real if res.get(o.id) and res[o.id].status == 'proved']
    guards = [o for o in obs if o.expect != 'valid']
    funcs = []
    for t in functions:
        info = eng.functions.get(t)
        if info is None:
            continue
        d = {k: v for k, v in info.items() if k != 'calls'}
        d['calls'] = sorted(info.get('calls', ()))
        funcs.append(d)
    samples = []
    for o in sorted(obs, key=lambda o: -(res[o.id].time_s if o.id in res else 0))[:3] + obs[:3]:
        r = res.get(o.id)
        samples.append({'obligation': o.name, 'kind': o.kind, 'goal': str(o.goal)[:300], 'hypotheses': len(o.hyps),
                        'status': r.status if r else None, 'backend': r.backend if r else None,
                        'time_s': round(r.time_s, 3) if r else None})
    kinds = {}
    for o in obs:
        kinds[o.kind] = kinds.get(o.kind, 0) + 1
    trivial = sum(eng.functions.get(t, {}).get('trivial', 0) for t in functions)
    if trivial:
        by_backend['simplified-to-true-during-generation'] = trivial
    cov = {
        'obligations': len(real) + trivial,
        'discharged': len(discharged_real) + trivial,
        'checker_cmd': f"python3-vt -m pyvc.run {prop} --tier {tier}",
        'trusted_base': plan.get('trusted_base', []) + trusted_of(reg, eng),
        'vacuity_guards': {'total': len(guards), 'passed': sum(1 for o in guards if res.get(o.id) and res[o.id].status == 'proved')},
        'obligations_by_kind': kinds,
        'by_backend': by_backend,
        'solver_time_s': round(solver_time, 2),
        'functions_under_contract': funcs,
        'lemmas': sorted(l.name for l in lemmas)[:400],
        'lemma_count': len(lemmas),
        'undecided': [{'function': t, 'config': cfg, 'why': why[:300]} for t, cfg, why in undecided],
        'known_findings_excluded': [{'obligation': ob.name, 'what': kf['what']} for ob, kf in known_hits],
        'samples': samples,
        'explanation': plan.get('explanation', ''),
    }
    cov.update(extra_cov)
    rtc = extra_cov.get('run_rtc') or {}
    if rtc.get('evaluations'):
        cov['evaluations'] = rtc['evaluations']
        cov['distinct_nontrivial'] = rtc.get('distinct_nontrivial') or 0
        cov['rule'] = rtc.get('rule', '')
    doc = {
        'property_id': prop, 'tier': tier, 'seed': seed, 'level': plan.get('level', 'proof'),
        'coverage': cov,
        'assumptions': plan.get('assumptions', []),
        'wall_s': round(time.time() - t0, 2),
        'violations': nviol,
    }
    d = os.environ.get('PYVC_EVIDENCE_DIR') or os.path.join(ROOT, 'evidence')
    os.makedirs(d, exist_ok=True)
    with open(os.path.join(d, f'{prop}.json'), 'w') as f:
        json.dump(doc, f, indent=1, default=str)


def do_replay_file(prop, path, plan):
    with open(path) as f:
        doc = json.load(f)
    rep = doc.get('replay')
    if not rep or not rep.get('input'):
        print(f"replay file carries no input: obligation {doc.get('obligation')} (solver output only)")
        print(json.dumps(doc.get('solver'), indent=1)[:2000])
        return 1
    reg = build(prop, 'quick', plan)
    c = reg.by_target[doc['function']]
    native = rp.call_native(c.target, rep['input'], py_func=(doc['kind'] in ('index', 'store')))
    chk = rp.check_concrete(c, doc.get('config'), rep['input'], native)
    print(json.dumps({'native': native, 'check': chk}, indent=1, default=str)[:4000])
    bad = bool(chk['violated']) or (not native.get('ok'))
    if bad:
        print(f"VIOLATION property={prop} replay={path}")
        return 1
    print("replay: the real code satisfies the contract on this input now")
    return 0


if __name__ == '__main__':
    sys.exit(main())
