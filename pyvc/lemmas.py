"""Lemma obligations: forall vars. requires => ensures, from proof hints (instances of other lemmas,
or of the lemma itself at a strictly smaller non-negative measure = induction hypothesis)."""
import z3

from .contracts import NS, LemmaInstance, labelled
from .engine import Obligation
from .values import And, Implies, SBool, to_bool, to_int


def lemma_obligations(reg, lem):
    from .values import Mode
    Mode.int_mode = lem.int_mode
    ns = NS(lem.make_ns())
    hyps = [b for _, b in labelled(lem.requires(ns) if lem.requires else None, 'requires')]

    def use(name, **bindings):
        other = reg.lemmas[name]
        b = NS(bindings)
        req = And(*[x for _, x in labelled(other.requires(b) if other.requires else None)])
        ens = And(*[x for _, x in labelled(other.ensures(b))])
        if other is lem:
            if lem.decreases is None:
                raise ValueError(f"lemma {lem.name}: recursive use without decreases")
            m0, m1 = to_int(lem.decreases(ns)), to_int(lem.decreases(b))
            return Implies(And(req, m1 >= 0, m1 < m0), ens)
        return Implies(req, ens)

    hints = []
    if lem.proof:
        for h in lem.proof(ns, use):
            if isinstance(h, tuple):
                h = h[1]
            hints.append(to_bool(h))
    obs = []
    zh = [h.z() for h in hyps + hints]
    for label, goal in labelled(lem.ensures(ns), 'ensures'):
        ob = Obligation('lemma::' + lem.name, 'lemma', label, 0, zh, to_bool(goal).z())
        ob.name = f"lemma {lem.name}#{label}"
        ob.props = lem.props
        ob.fuel = lem.fuel
        ob.tactic = lem.tactic
        ob.solver_opts = lem.solver_opts
        obs.append(ob)
    # vacuity guard: requires + hints satisfiable
    if not lem.sat_check:
        return obs
    g = Obligation('lemma::' + lem.name, 'req-sat', 'requires-satisfiable', 0, zh, z3.BoolVal(True), expect='sat')
    g.name = f"lemma {lem.name}#requires-satisfiable"
    g.props = lem.props
    obs.append(g)
    return obs


def instance(reg, name, **bindings):
    """the proved lemma `name` at the given arguments: requires => ensures"""
    lem = reg.lemmas[name]
    reg.used_lemmas.add(name)
    b = NS(bindings)
    req = And(*[x for _, x in labelled(lem.requires(b) if lem.requires else None)])
    ens = And(*[x for _, x in labelled(lem.ensures(b))])
    return LemmaInstance(Implies(req, ens), [name])


def instance_forall(reg, name, sorts, bind, guard=None, patterns=None):
    """forall q. [guard(q) =>] lemma(bind(q)): the lemma at every value of the bound variables"""
    from .values import forall

    def body(*qs):
        inst = instance(reg, name, **bind(*qs)).clause
        return Implies(guard(*qs), inst) if guard is not None else inst
    return LemmaInstance(forall(sorts, body, patterns=patterns), [name])
