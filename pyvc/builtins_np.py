"""Semantics of the builtins / numpy operations that occur in the verified subset (DESIGN 3.2, App. A).

Whole-array operations are modelled with lambda arrays (z3 Lambda): the result of an element-wise
operation is the array  i |-> op(a[i], b[i]) ; stores through views and fancy indices rebuild the
base array point-wise.  These are the assumed numpy/numba contracts, probed concretely elsewhere.
"""
import ast

import z3

from . import state as st
from .values import (FIN, NAN, NINF, NONE, PINF, Base, GList, Mode, SArr, SBool, SFloat, SFunc, SInt, SList, SNone,
                     SRecord, SStr, STuple, Unsupported, And, Implies, Ite, Not, Or, exists, forall, fresh_name,
                     fsqrt, int_sort, merge_values, to_bool, to_float, to_int)


class Module:
    def __init__(self, name):
        self.name = name


class DType:
    def __init__(self, name, coordinate=False):
        self.name = name
        # the coordinate subtype of a geometry array (float64 in the model; float32 / int64 / int32 / int16 in
        # general): creating arrays of it is fine, CASTING existing values to it is outside the model
        self.coordinate = coordinate

    @property
    def elem(self):
        if self.name.startswith('float'):
            return 'float'
        if self.name.startswith('bool'):
            return 'bool'
        return 'int'

    @property
    def dtype(self):
        return 'bool' if self.name == 'bool_' else self.name


class Builtin:
    def __init__(self, name):
        self.name = name


GLOBAL_NAMES = {n: Builtin(n) for n in (
    'len', 'min', 'max', 'int', 'float', 'abs', 'range', 'prange', 'sqrt', 'bool', 'tuple', 'list', 'enumerate',
    'isinstance', 'any', 'all', 'sorted', 'set', 'zip', 'sum', 'type', 'slice', 'memoryview', 'super', 'str', 'ValueError', 'TypeError', 'IndexError',
    'Integral', 'Iterable', 'Ellipsis')}
GLOBAL_NAMES['True'] = SBool(True)
GLOBAL_NAMES['False'] = SBool(False)

NP_DTYPES = ('uint8', 'uint16', 'uint32', 'uint64', 'int8', 'int16', 'int32', 'int64', 'float32', 'float64',
             'bool_', 'bool')


# ---------------------------------------------------------------------- attributes

def get_attribute(eng, s, fr, obj, attr, lineno):
    if isinstance(obj, Module):
        if obj.name in ('np', 'numpy'):
            if attr == 'inf':
                return SFloat.const(float('inf'))
            if attr == 'nan':
                return SFloat.const(float('nan'))
            if attr in NP_DTYPES:
                return DType(attr)
            return Builtin('np.' + attr)
        if obj.name == 'math':
            return Builtin('math.' + attr)
        return Builtin(obj.name + '.' + attr)
    if isinstance(obj, SArr):
        if attr == 'shape':
            return STuple(obj.shape())
        if attr == 'size':
            n = SInt(1)
            for d in obj.shape():
                n = n * d
            return n
        if attr == 'dtype':
            return DType(obj.base.dtype, coordinate=bool(obj.base.meta.get('coordinate_dtype')))
        return BoundMethod(obj, attr)
    if isinstance(obj, SList):
        return BoundMethod(obj, attr)
    if isinstance(obj, SRecord):
        if attr in obj.fields:
            return obj.fields[attr]
        if ('m:' + attr) in obj.fields:
            return BoundMethod(obj, attr)
        if attr == '__class__':
            return ClassRef(obj.cls)
        # a property / method under contract on the record's class (walks the class hierarchy of the repo)
        c = eng.reg.lookup(attr, cls=obj.cls)
        if c is not None:
            if 'property' in c.flags:
                return eng.call_contract(c, [obj], s, fr, lineno)
            return BoundMethod(obj, attr)
        raise Unsupported(f"unknown attribute {obj.cls}.{attr}")
    if isinstance(obj, Builtin):
        return Builtin(obj.name + '.' + attr)
    raise Unsupported(f"attribute {attr} of {type(obj).__name__}")


class BoundMethod:
    def __init__(self, obj, name):
        self.obj = obj
        self.name = name


class ClassRef:
    """a class object (self.__class__ / slice / a geometry array class): calling it constructs a record"""
    def __init__(self, cls):
        self.cls = cls


# ---------------------------------------------------------------------- calls

def call(eng, s, fr, node):
    f = node.func
    lineno = node.lineno
    # special syntactic patterns first
    pat = _pattern_call(eng, s, fr, node)
    if pat is not None:
        return pat
    if isinstance(f, ast.Name) and f.id not in s.env:
        c = eng.reg.lookup(f.id)
        if c is not None:
            args = _bind_args(eng, s, fr, c, node, [])
            return eng.call_contract(c, args, s, fr, lineno)
    fv = eng.eval(f, s, fr)
    if isinstance(fv, SFunc):
        c = eng.reg.lookup(fv.name)
        if c is None:
            raise Unsupported(f"call of unknown function value {fv.name}")
        args = _bind_args(eng, s, fr, c, node, [])
        return eng.call_contract(c, args, s, fr, lineno)
    args = [eng.eval(a, s, fr) for a in node.args]
    kwargs = {k.arg: eng.eval(k.value, s, fr) for k in node.keywords}
    if isinstance(fv, DType):
        # np.uint32(x) style casts of scalars
        if fv.coordinate:
            raise Unsupported("value cast to the array's coordinate subtype (the model fixes it to float64)")
        if len(args) == 1 and isinstance(args[0], (SInt, SFloat, SBool)):
            if fv.elem == 'float':
                return to_float(args[0]).widened() if fv.name == 'float64' else to_float(args[0])
            if fv.elem == 'bool':
                return to_bool(args[0])
            return to_int(args[0])
        raise Unsupported("dtype call")
    if isinstance(fv, ClassRef):
        return construct(eng, s, fr, fv.cls, args, kwargs, lineno)
    if isinstance(fv, BoundMethod):
        return call_method(eng, s, fr, fv, args, kwargs, lineno, node)
    if isinstance(fv, Builtin):
        return call_builtin(eng, s, fr, fv.name, args, kwargs, lineno, node)
    raise Unsupported(f"call of {type(fv).__name__} at line {lineno}")


def _bind_args(eng, s, fr, c, node, prefix):
    params = c.param_list(fr.config)
    names = [p[0] for p in params]
    vals = list(prefix) + [eng.eval(a, s, fr) for a in node.args]
    out = dict(zip(names, vals))
    for k in node.keywords:
        if k.arg is None:
            raise Unsupported("**kwargs call")
        out[k.arg] = eng.eval(k.value, s, fr)
    missing = [n for n in names if n not in out]
    if missing:
        raise Unsupported(f"call to {c.simple_name}: missing arguments {missing}")
    return [out[n] for n in names]


def _pattern_call(eng, s, fr, node):
    """int(np.ceil(a / b)) on integers = ceil division; int(np.ceil(np.log2(k))) = clog2(k)."""
    f = node.func
    if isinstance(f, ast.Name) and f.id == 'int' and len(node.args) == 1 and isinstance(node.args[0], ast.Call):
        inner = node.args[0]
        if _is_np(inner.func, 'ceil') and len(inner.args) == 1:
            x = inner.args[0]
            if isinstance(x, ast.Call) and _is_np(x.func, 'log2'):
                k = to_int(eng.eval(x.args[0], s, fr))
                return clog2(k, s)
            if isinstance(x, ast.BinOp) and isinstance(x.op, ast.Div):
                a = eng.eval(x.left, s, fr)
                b = eng.eval(x.right, s, fr)
                if isinstance(a, SInt) and isinstance(b, SInt):
                    eng.oblige(fr, s, 'safety', 'division-by-zero', b != 0, node.lineno)
                    # exact for b > 0 (mathematical arithmetic assumption for the float division)
                    return Ite(b > 0, (a + b - 1) // b, -((-a) // b) if False else (a + b - 1) // b)
    return None


def _is_np(f, name):
    return isinstance(f, ast.Attribute) and f.attr == name and isinstance(f.value, ast.Name) and f.value.id in ('np', 'numpy')


_clog2 = None


def clog2(k, s):
    """ceil(log2(k)) for k >= 1 : uninterpreted with the defining facts assumed (DESIGN App. A)"""
    global _clog2
    from .values import pow2
    if k.concrete:
        if k.v < 1:
            raise Unsupported("log2 of non-positive")
        return SInt((k.v - 1).bit_length())
    if _clog2 is None:
        _clog2 = z3.Function('clog2', z3.IntSort(), z3.IntSort())
    d = SInt(_clog2(k.z()))
    s.assume(Implies(k >= 1, And(d >= 0, pow2(d) >= k, Or(d == 0, pow2(d - 1) < k))))
    return d


def call_builtin(eng, s, fr, name, args, kwargs, lineno, node):
    if name == 'len':
        return seq_len(s, args[0])
    if name in ('min', 'max'):
        if len(args) == 2:
            a, b = args
            if isinstance(a, SFloat) or isinstance(b, SFloat):
                a, b = to_float(a), to_float(b)
            else:
                a, b = to_int(a), to_int(b)
            # numba / python: min(a, b) = b if b < a else a ; max(a, b) = b if b > a else a
            c = (b < a) if name == 'min' else (b > a)
            return Ite(c, b, a)
        if len(args) == 1 and isinstance(args[0], SArr):
            return reduce_minmax(eng, s, fr, args[0], name, lineno)
        if len(args) == 1 and isinstance(args[0], (SList, STuple)):
            items = list(s.lists[args[0].lid]) if isinstance(args[0], SList) else list(args[0].items)
            acc = items[0]
            for b in items[1:]:
                c = (b < acc) if name == 'min' else (b > acc)
                acc = Ite(c, b, acc)
            return acc
        raise Unsupported(f"{name} with {len(args)} arguments")
    if name == 'int':
        v = args[0]
        if isinstance(v, SFloat):
            return float_to_int(v)
        return to_int(v)
    if name == 'float':
        return to_float(args[0]).widened()
    if name == 'bool':
        return to_bool(eng.truthy(args[0], s))
    if name == 'abs':
        v = args[0]
        if isinstance(v, SInt):
            return Ite(v < 0, -v, v)
        v = to_float(v)
        return Ite(v < SFloat.const(0.0), -v, v)
    if name in ('sqrt', 'math.sqrt', 'np.sqrt'):
        return fsqrt(args[0])
    if name == 'tuple':
        v = args[0]
        if isinstance(v, STuple):
            return v
        if isinstance(v, SList):
            return STuple(s.lists[v.lid])
        if isinstance(v, SArr) and v.length().concrete:
            return STuple(eng.index_value(v, SInt(k), s, fr) for k in range(v.length().v))
        raise Unsupported("tuple() of symbolic-length sequence")
    if name == 'list':
        v = args[0]
        if isinstance(v, STuple):
            return s.new_list(v.items)
        if isinstance(v, SList):
            return s.new_list(s.lists[v.lid])
        if isinstance(v, SArr) and v.length().concrete:
            return s.new_list([eng.index_value(v, SInt(k), s, fr) for k in range(v.length().v)])
        raise Unsupported("list() of symbolic-length sequence")
    if name == 'np.isfinite':
        v = args[0]
        if isinstance(v, SArr):
            return elementwise_unop(eng, s, fr, 'isfinite', v)
        if isinstance(v, SInt):
            return SBool(True)
        return to_float(v).is_fin()
    if name == 'np.isnan':
        v = args[0]
        if isinstance(v, SArr):
            return elementwise_unop(eng, s, fr, 'isnan', v)
        if isinstance(v, SInt):
            return SBool(False)
        return to_float(v).is_nan()
    if name in ('np.zeros', 'np.ones', 'np.full', 'np.empty'):
        shape = args[0]
        if name == 'np.full':
            fill = args[1]
            dt = args[2] if len(args) > 2 else kwargs.get('dtype')
        else:
            fill = SInt(0) if name != 'np.ones' else SInt(1)
            dt = args[1] if len(args) > 1 else kwargs.get('dtype')
        return np_full(s, shape, fill, dt)
    if name == 'np.ceil':
        v = to_float(args[0])
        if not v.known_finite:
            raise Unsupported("ceil of possibly non-finite value")
        return SFloat(FIN, -z3.ToReal(z3.ToInt(-v.val)))
    if name == 'np.floor':
        v = to_float(args[0])
        if not v.known_finite:
            raise Unsupported("floor of possibly non-finite value")
        return SFloat(FIN, z3.ToReal(z3.ToInt(v.val)))
    if name == 'np.clip' and len(args) == 3 and isinstance(args[0], SArr):
        lo, hi = to_float(args[1]), to_float(args[2])
        a0 = args[0]
        snap = _Snap(dict(s.heap))
        if a0.ndim != 1 or a0.elem != 'float':
            raise Unsupported("np.clip of a non-float or n-d array")
        # numpy: minimum(maximum(x, lo), hi); NaN stays NaN

        def clipped(k):
            x = cell(snap, a0, k)
            return merge_values(And(Not(x.is_nan()), x < lo), lo, merge_values(And(Not(x.is_nan()), x > hi), hi, x))
        return new_lambda_array(s, 'float', 'float64', a0.length(), clipped, 'clip')
    if name in ('np.any', 'any'):
        v = args[0]
        if isinstance(v, SArr):
            return array_any(eng, s, v)
        if isinstance(v, (SList, STuple)):
            items = s.lists[v.lid] if isinstance(v, SList) else v.items
            return Or(*[to_bool(x) for x in items])
    if name in ('np.all', 'all'):
        v = args[0]
        if isinstance(v, SArr):
            return ~array_any(eng, s, elementwise_unop(eng, s, fr, 'invert', v))
    if name == 'np.arange':
        return np_arange(eng, s, fr, args, lineno)
    if name == 'np.array':
        return np_array(eng, s, fr, args, kwargs, lineno)
    if name in ('np.asarray',):
        if isinstance(args[0], SArr):
            dt = args[1] if len(args) > 1 else kwargs.get('dtype')
            if dt is not None and not isinstance(dt, SNone):
                if getattr(dt, 'coordinate', False) or _dtype_of(dt).dtype != args[0].base.dtype:
                    raise Unsupported("np.asarray of an array with a different / coordinate dtype")
            return args[0]
        return np_array(eng, s, fr, args, kwargs, lineno)
    if name == 'np.nonzero':
        return STuple([np_nonzero(eng, s, fr, args[0], lineno)])
    if name == 'memoryview':
        return args[0]
    if name == 'np.isscalar':
        return SBool(isinstance(args[0], (SInt, SFloat, SBool, SStr)))
    if name == 'super':
        me = s.env.get('self')
        if isinstance(me, SRecord) and 'super' in me.fields:
            return me.fields['super']
        raise Unsupported("super() without a modelled parent")
    if name == 'pa.array':
        return pa_array(eng, s, fr, args, kwargs, lineno)
    if name == 'pa.ListArray.from_arrays':
        return pa_list_from_arrays(eng, s, fr, args, kwargs, lineno)
    if name == 'np.repeat':
        a, k = args[0], to_int(args[1])
        if not isinstance(a, SArr) or a.ndim != 1 or not k.concrete or k.v < 1:
            raise Unsupported("np.repeat form")
        snap = _Snap(dict(s.heap))
        return new_lambda_array(s, a.elem, a.base.dtype, a.length() * k.v, lambda j: cell(snap, a, j // k.v), 'repeat')
    if name == 'np.atleast_2d':
        v = args[0]
        if isinstance(v, SArr) and v.ndim == 2:
            return v
        if isinstance(v, SArr) and v.ndim == 1:
            # (n,) -> (1, n): not needed by the verified call sites (always 2-d); keep explicit
            raise Unsupported("np.atleast_2d of 1-d array")
    if name == 'np.concatenate':
        return np_concatenate(eng, s, fr, args[0], lineno)
    if name == 'np.sort':
        return np_sort(eng, s, fr, args[0], lineno)
    if name in ('np.min', 'np.max'):
        return reduce_minmax(eng, s, fr, args[0], name[3:], lineno)
    if name == 'type' and len(args) == 1:
        return SStr('type:' + type_name(args[0]))
    if name == 'slice':
        a = list(args) + [NONE] * (3 - len(args))
        if len(args) == 1:
            a = [NONE, args[0], NONE]
        return SRecord('slice', {'start': a[0], 'stop': a[1], 'step': a[2]})
    if name == 'isinstance':
        obj, cls = args
        names = [c for c in (cls.items if isinstance(cls, STuple) else [cls])]
        tn = type_name(obj)
        from . import extract
        anc = set(extract.mro(tn)) | {tn}
        if tn == 'int':
            anc.add('Integral')          # numbers.Integral: python and numpy integers
        if tn in ('tuple', 'list', 'ndarray', 'str'):
            anc.add('Iterable')
        return SBool(any(class_name(c) in anc for c in names))
    raise Unsupported(f"builtin {name} at line {lineno}")


def type_name(v):
    if isinstance(v, SRecord):
        return v.cls
    return {SInt: 'int', SFloat: 'float', SBool: 'bool', SNone: 'NoneType', STuple: 'tuple', SList: 'list',
            SStr: 'str', SArr: 'ndarray'}.get(type(v), type(v).__name__)


def class_name(c):
    if isinstance(c, ClassRef):
        return c.cls
    if isinstance(c, Builtin):
        return c.name.split('.')[-1]
    if isinstance(c, SFunc):
        return c.name
    raise Unsupported(f"class reference {c}")


def construct(eng, s, fr, cls, args, kwargs, lineno):
    """cls(...) for the classes the glue layer instantiates"""
    from . import extract
    anc = extract.mro(cls)
    if 'GeometryListArray' in anc and len(args) == 1 and isinstance(args[0], SRecord) \
            and args[0].cls in ('ListArray', 'ListArrayTake'):
        rep = args[0]
        return SRecord(cls, {'listarray': rep, 'data': rep, 'numpy_dtype': DType('float64'), '_sindex': NONE,
                             '_element_len': SInt(2)})
    raise Unsupported(f"construction of {cls}")


def pa_array(eng, s, fr, args, kwargs, lineno):
    """pa.array(ndarray[, mask=bool ndarray]): an arrow array with those values; slot i is null iff mask[i]"""
    a = args[0]
    if not isinstance(a, SArr) or a.ndim != 1:
        raise Unsupported("pa.array of a non-1-d-array")
    mask = kwargs.get('mask', NONE)
    if isinstance(mask, SArr):
        eng.oblige(fr, s, 'pre', 'pa.array.mask-length', mask.length() == a.length(), lineno)
    return SRecord('pa.Array', {'values': a, 'mask': mask, 'length': a.length()})


def pa_list_from_arrays(eng, s, fr, args, kwargs, lineno):
    """pa.ListArray.from_arrays(offsets, values): a list array with offset 0, len(offsets)-1 slots, the given
    offsets buffer, child `values`; slot i is null iff the offsets array's mask says so (assumed pyarrow contract)"""
    off, child = args[0], args[1]
    if isinstance(off, SArr):
        off = SRecord('pa.Array', {'values': off, 'mask': NONE, 'length': off.length()})
    if not (isinstance(off, SRecord) and off.cls == 'pa.Array'):
        raise Unsupported("from_arrays offsets")
    o = off.fields['values']
    eng.oblige(fr, s, 'pre', 'from_arrays.at-least-one-offset', o.length() >= 1, lineno)
    msk = off.fields['mask']
    if isinstance(msk, SArr):
        # pyarrow replaces a null offset by the next valid one (the null slot gets an empty range):
        #   R[k] == given[k] where the offset is valid,  R[k] == R[k+1] where it is null; the last must be valid
        n_off = o.length()
        eng.oblige(fr, s, 'pre', 'from_arrays.last-offset-valid', Not(to_bool(cell(s, msk, n_off - 1))), lineno)
        given, mk = o, msk
        R = st.new_sym_array(s, 'int', 'int32', [n_off], 'cleaned_offsets')
        snap0 = _Snap(dict(s.heap))
        s.assume(forall('int', lambda k: Implies(And(k >= 0, k < n_off, Not(to_bool(cell(snap0, mk, k)))),
                                                 cell(snap0, R, k) == cell(snap0, given, k))))
        s.assume(forall('int', lambda k: Implies(And(k >= 0, k < n_off - 1, to_bool(cell(snap0, mk, k))),
                                                 cell(snap0, R, k) == cell(snap0, R, k + 1))))
        o = R
    if isinstance(child, SRecord) and child.cls == 'pa.Array':
        if not isinstance(child.fields['mask'], SNone):
            raise Unsupported("masked leaf values")
        cb = (NONE, child.fields['values'])
    elif isinstance(child, SRecord) and child.cls == 'ListArray':
        if not (child.fields['offset'].concrete and child.fields['offset'].v == 0):
            raise Unsupported("child list array with an offset")
        cb = tuple(child.fields['bufs'].items)
    else:
        raise Unsupported("from_arrays child")
    rep = SRecord('ListArray', {'offset': SInt(0), 'length': o.length() - 1,
                                'bufs': STuple((NONE, o) + tuple(cb)), 'nullmask': off.fields['mask']})
    rep.fields['m:buffers'] = lambda eng, s, fr, obj, args, kwargs, lineno: obj.fields['bufs']
    return rep


def seq_len(s, v):
    if isinstance(v, SArr):
        return v.length()
    if isinstance(v, SList):
        if isinstance(s.lists[v.lid], GList):
            return s.lists[v.lid].n
        return SInt(len(s.lists[v.lid]))
    if isinstance(v, STuple):
        return SInt(len(v))
    if isinstance(v, SRecord) and 'length' in v.fields:
        return v.fields['length']
    if isinstance(v, SRecord) and 'data' in v.fields:
        return seq_len(s, v.fields['data'])      # GeometryArray.__len__ is len(self.data)
    raise Unsupported(f"len of {type(v).__name__}")


OOB_CAST = z3.Function('oob_cast', z3.RealSort(), z3.IntSort())


def float_to_int(v):
    """float -> int64 cast: truncation toward zero for finite values whose truncation fits int64; unconstrained
    otherwise (C / numpy leave it undefined - INT64_MIN on x86)"""
    fl = z3.ToInt(v.val)
    tr = z3.If(v.val >= 0, fl, -z3.ToInt(-v.val))
    if Mode.int_mode == 'bv64':
        raise Unsupported("float to int in bv mode")
    fits = z3.And(v.val > -(2 ** 63) - 1, v.val < 2 ** 63)
    tr = z3.If(fits, tr, OOB_CAST(v.val))
    if v.known_finite:
        return SInt(tr)
    from .values import nf_cast
    return SInt(z3.If(v.is_fin().z(), tr, nf_cast(v.ztag(), v.val)))


def call_method(eng, s, fr, bm, args, kwargs, lineno, node):
    obj, name = bm.obj, bm.name
    if isinstance(obj, SRecord):
        if ('m:' + name) in obj.fields:
            return obj.fields['m:' + name](eng, s, fr, obj, args, kwargs, lineno)
        c = eng.reg.lookup(name, cls=obj.cls)
        if c is None:
            raise Unsupported(f"method {obj.cls}.{name}")
        a = _bind_args(eng, s, fr, c, node, [obj])
        return eng.call_contract(c, a, s, fr, lineno)
    if isinstance(obj, SList) and isinstance(s.lists[obj.lid], GList):
        g = s.lists[obj.lid]
        if name == 'append':
            s.lists[obj.lid] = g.append(args[0])
            return NONE
        if name == 'pop' and not args:
            eng.oblige(fr, s, 'safety', 'pop-from-non-empty-list', g.n > 0, lineno)
            v, s.lists[obj.lid] = g.pop()
            return v
        if name == 'extend':
            other = args[0]
            extra = s.lists[other.lid] if isinstance(other, SList) else other.items
            if isinstance(extra, GList):
                raise Unsupported("extend by a list of symbolic length")
            for x in extra:
                g = g.append(x)
            s.lists[obj.lid] = g
            return NONE
        raise Unsupported(f"list method {name} on a list of symbolic length")
    if isinstance(obj, SList):
        items = list(s.lists[obj.lid])
        if name == 'append':
            items.append(args[0])
            s.lists[obj.lid] = tuple(items)
            return NONE
        if name == 'pop':
            if not items:
                raise Unsupported("pop from empty list")
            v = items.pop() if not args else items.pop(int(to_int(args[0])))
            s.lists[obj.lid] = tuple(items)
            return v
        if name == 'extend':
            other = args[0]
            extra = s.lists[other.lid] if isinstance(other, SList) else other.items
            s.lists[obj.lid] = tuple(items) + tuple(extra)
            return NONE
        raise Unsupported(f"list method {name}")
    if isinstance(obj, SArr):
        if name == 'fill':
            copy_into(eng, s, fr, obj, args[0], lineno)
            return NONE
        if name == 'any':
            return array_any(eng, s, obj)
        if name == 'all':
            return ~array_any(eng, s, elementwise_unop(eng, s, fr, 'invert', obj))
        if name == 'copy':
            return array_copy(eng, s, obj)
        if name == 'astype':
            dt = args[0]
            return array_astype(eng, s, fr, obj, dt)
        if name in ('min', 'max'):
            return reduce_minmax(eng, s, fr, obj, name, lineno)
        if name == 'view':
            # reinterpretation of a buffer as cells of a dtype: the model's buffers are typed already
            dt = _dtype_of(args[0])
            if dt.elem != obj.elem:
                raise Unsupported(f"view of {obj.base.dtype} buffer as {dt.name}")
            return obj
    raise Unsupported(f"method {name} on {type(obj).__name__}")


# ---------------------------------------------------------------------- array construction

def _dtype_of(dt):
    if dt is None:
        return DType('float64')
    if isinstance(dt, DType):
        return dt
    if isinstance(dt, SStr) and dt.s in ('int', 'float', 'bool'):
        return DType({'bool': 'bool', 'int': 'int64', 'float': 'float64'}[dt.s])
    if isinstance(dt, Builtin) and dt.name in ('bool', 'int', 'float'):
        return DType({'bool': 'bool', 'int': 'int64', 'float': 'float64'}[dt.name])
    if isinstance(dt, SStr):
        return DType(dt.s)
    raise Unsupported(f"dtype argument {dt}")


def np_full(s, shape, fill, dt):
    d = _dtype_of(dt)
    if isinstance(shape, STuple):
        dims = [to_int(x) for x in shape.items]
    else:
        dims = [to_int(shape)]
    if d.elem == 'float':
        fillv = to_float(fill)
    elif d.elem == 'bool':
        fillv = to_bool(fill)
    else:
        fillv = to_int(fill)
    if all(x.concrete for x in dims):
        return st.new_conc_array(s, d.elem, d.dtype, [x.v for x in dims], fillv)
    return st.new_filled_sym_array(s, d.elem, d.dtype, dims, fillv)


def new_lambda_array(s, elem, dtype, n, fn, name='lam'):
    """1-d array of (symbolic) length n with cell k = fn(k)"""
    n = to_int(n)
    if n.concrete:
        arr = st.new_conc_array(s, elem, dtype, [n.v], None)
        s.heap[arr.base.id] = tuple(_coerce(elem, fn(SInt(k))) for k in range(n.v))
        return arr
    base = Base(elem, dtype, (n,), 'sym', name)
    s.heap[base.id] = st.fn_content(lambda idx, fn=fn, elem=elem: _coerce(elem, fn(idx[0])))
    return st.full_view(base)


def _coerce(elem, v):
    if elem == 'float':
        return to_float(v)
    if elem == 'bool':
        return to_bool(v)
    return to_int(v)


def cell(s, arr, k):
    """arr[k] (1-d logical index, no obligations)"""
    return st.read_base(s, arr.base, st.base_index(arr, [k], None))


def cell2(s, arr, i, j):
    return st.read_base(s, arr.base, st.base_index(arr, [i, j], None))


def np_arange(eng, s, fr, args, lineno):
    vals = [to_int(a) for a in args]
    if len(vals) == 1:
        a, b, step = SInt(0), vals[0], SInt(1)
    elif len(vals) == 2:
        a, b, step = vals[0], vals[1], SInt(1)
    else:
        a, b, step = vals
    if not step.concrete or step.v <= 0:
        raise Unsupported("np.arange step")
    span = b - a
    cnt = span if step.v == 1 else (span + (step.v - 1)) // step.v
    cnt = Ite(cnt < 0, SInt(0), cnt) if not cnt.concrete else SInt(max(cnt.v, 0))
    return new_lambda_array(s, 'int', 'int64', cnt, lambda k: a + step * k, 'arange')


def np_array(eng, s, fr, args, kwargs, lineno):
    src = args[0]
    dt = args[1] if len(args) > 1 else kwargs.get('dtype')
    if isinstance(src, (SList, STuple)):
        items = list(s.lists[src.lid]) if isinstance(src, SList) else list(src.items)
        if dt is None:
            d = DType('float64') if any(isinstance(x, SFloat) for x in items) else DType('int64')
        else:
            d = _dtype_of(dt)
            if getattr(dt, 'coordinate', False) and items:
                raise Unsupported("values cast to the array's coordinate subtype (the model fixes it to float64)")
        arr = st.new_conc_array(s, d.elem, d.dtype, [len(items)], None)
        cells = []
        for x in items:
            cells.append(st.coerce_elem(arr.base, x, lambda kind, c: eng.oblige(fr, s, kind, 'value-fits-dtype', c, lineno)))
        s.heap[arr.base.id] = tuple(cells)
        return arr
    raise Unsupported("np.array of non-sequence")


def array_copy(eng, s, arr):
    snap = _Snap(dict(s.heap))   # operands are read as they are NOW (numpy evaluates eagerly)
    if arr.ndim == 1:
        r = new_lambda_array(s, arr.elem, arr.base.dtype, arr.length(), lambda k: cell(snap, arr, k), 'copy')
        r.base.finite = arr.base.finite
        return r
    if arr.ndim == 2:
        r, c = arr.shape()
        return new_lambda_array2(s, arr.elem, arr.base.dtype, r, c, lambda i, j: cell2(snap, arr, i, j), 'copy')
    raise Unsupported("copy of >2-d array")


def new_lambda_array2(s, elem, dtype, r, c, fn, name='lam2'):
    r, c = to_int(r), to_int(c)
    if r.concrete and c.concrete:
        arr = st.new_conc_array(s, elem, dtype, [r.v, c.v], None)
        s.heap[arr.base.id] = tuple(_coerce(elem, fn(SInt(i), SInt(j))) for i in range(r.v) for j in range(c.v))
        return arr
    base = Base(elem, dtype, (r, c), 'sym', name)
    s.heap[base.id] = st.fn_content(lambda idx, fn=fn, elem=elem: _coerce(elem, fn(idx[0], idx[1])))
    return st.full_view(base)


def array_astype(eng, s, fr, arr, dt):
    snap = _Snap(dict(s.heap))   # operands are read as they are NOW (numpy evaluates eagerly)
    if getattr(dt, 'coordinate', False):
        raise Unsupported("astype to the array's coordinate subtype (the model fixes it to float64)")
    d = _dtype_of(dt)
    if arr.ndim != 1:
        raise Unsupported("astype of n-d array")

    def conv(k):
        v = cell(snap, arr, k)
        if d.elem == 'int' and isinstance(v, SFloat):
            return float_to_int(v)
        return _coerce(d.elem, v)
    return new_lambda_array(s, d.elem, d.dtype, arr.length(), conv, 'astype')


# ---------------------------------------------------------------------- element-wise operations

def _bcast(s, x, k):
    if isinstance(x, SArr):
        if x.ndim != 1:
            raise Unsupported("element-wise operation on n-d array")
        return cell(s, x, k)
    return x


def _len_of(s, a, b):
    for x in (a, b):
        if isinstance(x, SArr):
            return x.length()
    raise Unsupported("no array operand")


def elementwise_compare(eng, s, fr, op, a, b):
    snap = _Snap(dict(s.heap))   # operands are read as they are NOW (numpy evaluates eagerly)
    n = _len_of(s, a, b)
    return new_lambda_array(s, 'bool', 'bool', n,
                            lambda k: eng.compare(op, _bcast(snap, a, k), _bcast(snap, b, k), s, fr), 'cmp')


def elementwise_binop(eng, s, fr, op, a, b):
    snap = _Snap(dict(s.heap))   # operands are read as they are NOW (numpy evaluates eagerly)
    n = _len_of(s, a, b)
    ea = a.elem if isinstance(a, SArr) else ('float' if isinstance(a, SFloat) else 'bool' if isinstance(a, SBool) else 'int')
    eb = b.elem if isinstance(b, SArr) else ('float' if isinstance(b, SFloat) else 'bool' if isinstance(b, SBool) else 'int')
    if isinstance(op, ast.Div) or 'float' in (ea, eb):
        elem, dtype = 'float', 'float64'
    elif ea == 'bool' and eb == 'bool':
        elem, dtype = 'bool', 'bool'
    else:
        elem, dtype = 'int', 'int64'

    def f(k):
        x, y = _bcast(snap, a, k), _bcast(snap, b, k)
        if isinstance(op, ast.Div):
            return to_float(x) / to_float(y)
        return eng.binop(op, x, y, s, fr)
    res = new_lambda_array(s, elem, dtype, n, f, 'bin')
    for x, y in ((a, b), (b, a)):
        if isinstance(x, SArr) and not isinstance(y, SArr) and 'rank' in x.base.meta:
            res.base.meta.update({k2: x.base.meta[k2] for k2 in ('pos', 'rank', 'mask', 'count')})
    return res


def elementwise_unop(eng, s, fr, op, a):
    snap = _Snap(dict(s.heap))   # operands are read as they are NOW (numpy evaluates eagerly)
    def f(k):
        v = cell(snap, a, k)
        if op == 'invert':
            return ~to_bool(v) if a.elem == 'bool' else ~to_int(v)
        if op == 'isfinite':
            return to_float(v).is_fin() if a.elem == 'float' else SBool(True)
        if op == 'isnan':
            return to_float(v).is_nan() if a.elem == 'float' else SBool(False)
        raise Unsupported(op)
    elem = 'bool' if op in ('isfinite', 'isnan') or a.elem == 'bool' else 'int'
    return new_lambda_array(s, elem, 'bool' if elem == 'bool' else 'int64', a.length(), f, 'un')


def array_any(eng, s, arr):
    if arr.ndim != 1:
        raise Unsupported("any() of n-d array")
    n = arr.length()
    if n.concrete:
        return Or(*[to_bool(cell(s, arr, SInt(k))) for k in range(n.v)])
    return exists('int', lambda k: And(k >= 0, k < n, to_bool(cell(s, arr, k))))


# ---------------------------------------------------------------------- stores through views

def _value_at(eng, s, v, ks, snapshot):
    """value of the right-hand side at logical indices ks (list of SInt), read in the snapshot heap"""
    if isinstance(v, SArr):
        if v.ndim != len(ks):
            if v.ndim == 1 and len(ks) == 2:
                ks = ks[-1:]
            else:
                raise Unsupported("shape mismatch in array store")
        return st.read_base(snapshot, v.base, st.base_index(v, ks, None))
    if isinstance(v, (STuple, SList)):
        items = v.items if isinstance(v, STuple) else s.lists[v.lid]
        k = ks[-1]
        if k.concrete:
            return items[k.v]
        res = items[-1]
        for j in range(len(items) - 2, -1, -1):
            res = merge_values(k == j, items[j], res)
        return res
    return v


class _Snap:
    def __init__(self, heap):
        self.heap = heap

    def assume(self, b):
        pass


def copy_into(eng, s, fr, tgt, v, lineno=0):
    """tgt[...] = v for a view tgt (all cells), numpy semantics incl. overlap safety (the source is
    read from the heap as it was before the store)."""
    snap = _Snap(dict(s.heap))
    base = tgt.base
    rdims = tgt.rng_dims()
    # length agreement
    if isinstance(v, SArr):
        if v.ndim == len(rdims):
            for (d, m) in zip(rdims, v.shape()):
                eng.oblige(fr, s, 'store', 'shapes-agree', d[3] == m, lineno)
        elif not (v.ndim == 1 and len(rdims) == 2):
            raise Unsupported("store shape mismatch")
    elif isinstance(v, (STuple, SList)):
        n = len(v.items) if isinstance(v, STuple) else len(s.lists[v.lid])
        eng.oblige(fr, s, 'store', 'shapes-agree', rdims[-1][3] == n, lineno)
    if all(d[3].concrete for d in rdims):
        import itertools as it
        for ks in it.product(*[range(d[3].v) for d in rdims]):
            ksi = [SInt(k) for k in ks]
            val = _value_at(eng, s, v, ksi, snap)
            bidx = st.base_index(tgt, ksi, None)
            # the view was bounds-checked when it was created (slices clamp), so cells exist
            st.write_base(s, base, bidx, st.coerce_elem(base, val, lambda kind, c: eng.oblige(fr, s, kind, 'value-fits-dtype', c, lineno)))
        return
    if base.kind != 'sym':
        raise Unsupported("symbolic-extent store into concrete-shape array")
    old_read = st.content_reader(base, s.heap[base.id])
    dims = tgt.dims

    def locate(idx):
        """(condition that base cell idx belongs to the target view, its logical indices)"""
        cond = SBool(True)
        ks = []
        for d, jj in zip(dims, idx):
            if d[0] == 'fix':
                cond = cond & (jj == d[1])
            else:
                _, off, stride, n = d
                if stride.concrete and stride.v == 1:
                    k = jj - off
                    cond = cond & (k >= 0) & (k < n)
                elif stride.concrete and stride.v > 1:
                    k = (jj - off) // stride.v
                    cond = cond & (jj >= off) & (((jj - off) % stride.v) == 0) & (k < n)
                elif stride.concrete and stride.v < 0:
                    m = -stride.v
                    k = (off - jj) // m
                    cond = cond & (jj <= off) & (((off - jj) % m) == 0) & (k < n)
                else:
                    raise Unsupported("symbolic stride store")
                ks.append(k)
        return cond, ks

    def newfn(idx):
        cond, ks = locate(idx)
        val = st.coerce_elem(base, _value_at(eng, s, v, ks, snap), None)
        if cond.concrete:
            return val if cond.v else old_read(idx)
        return merge_values(cond, val, old_read(idx))
    # validate strides now (raises Unsupported early)
    locate([SInt.fresh('probe') for _ in base.shape])
    s.heap[base.id] = st.fn_content(newfn)
    if base.elem == 'int' and Mode.int_mode == 'math' and base.dtype in st.UNSIGNED_BITS:
        bits = st.UNSIGNED_BITS[base.dtype]

        def fits(*js):
            cond, ks = locate(list(js))
            val = to_int(_value_at(eng, s, v, ks, snap))
            return Implies(cond, And(val >= 0, val < SInt(1 << bits)))
        eng.oblige(fr, s, 'range', 'value-fits-dtype', forall(['int'] * len(base.shape), fits), lineno)


def load_fancy(eng, s, fr, arr, items, lineno):
    snap = _Snap(dict(s.heap))   # operands are read as they are NOW (numpy evaluates eagerly)
    if len(items) != 1 or arr.ndim != 1:
        if arr.ndim == 2 and len(items) == 2 and items[0][0] == 'fancy' and items[1][0] == 'slice' \
                and items[1][1] is None and items[1][2] is None and items[1][3] is None:
            idx = items[0][1]
            r, c = arr.shape()
            n = idx.length()
            eng.oblige(fr, s, 'index', 'fancy-index-in-bounds',
                       _all_cells(s, idx, lambda v: And(v >= 0, v < r)), lineno)
            return new_lambda_array2(s, arr.elem, arr.base.dtype, n, c,
                                     lambda i, j: cell2(snap, arr, cell(snap, idx, i), j), 'take')
        if arr.ndim == 2 and len(items) == 2 and items[0][0] == 'mask' and _full_slice(items[1]):
            # rows selected by a boolean mask, in order
            mask = items[0][1]
            r, c = arr.shape()
            eng.oblige(fr, s, 'index', 'mask-length', mask.length() == r, lineno)
            if mask.base.kind == 'sym':
                st.name_content(s, mask.base)
            m, P, R = _compress_maps(s, r, mask, snap)
            res = new_lambda_array2(s, arr.elem, arr.base.dtype, m, c, lambda i, j: cell2(snap, arr, P(i), j), 'compress2')
            res.base.meta.update({'pos': P, 'rank': R, 'mask': mask, 'count': m})
            return res
        raise Unsupported("fancy indexing form")
    kind, idx = items[0]
    n = arr.length()
    if kind == 'fancy':
        eng.oblige(fr, s, 'index', 'fancy-index-in-bounds', _all_cells(s, idx, lambda v: And(v >= 0, v < n)), lineno)
        return new_lambda_array(s, arr.elem, arr.base.dtype, idx.length(), lambda k: cell(snap, arr, cell(snap, idx, k)), 'take')
    return compress(eng, s, fr, arr, idx, lineno)


def _full_slice(it):
    return it[0] == 'slice' and it[1] is None and it[2] is None and it[3] is None


def _all_cells(s, arr, pred):
    n = arr.length()
    if n.concrete:
        return And(*[pred(cell(s, arr, SInt(k))) for k in range(n.v)])
    return forall('int', lambda k: Implies(And(k >= 0, k < n), pred(cell(s, arr, k))))


def store_fancy(eng, s, fr, arr, items, v, lineno):
    snap = _Snap(dict(s.heap))   # operands are read as they are NOW (numpy evaluates eagerly)
    if arr.ndim == 2 and len(items) == 2 and items[0][0] == 'mask' and _full_slice(items[1]) and isinstance(v, SArr) \
            and v.ndim == 2 and v.base.meta.get('mask') is not None and v.base.meta['mask'].base is items[0][1].base \
            and arr.base.kind == 'sym' and len(arr.dims) == 2 and all(d[0] == 'rng' for d in arr.dims):
        # a[m, :] = b[m, :] with the same mask m: the selected rows receive their own rows of b
        mask = items[0][1]
        base = arr.base
        r, c = arr.shape()
        rank = v.base.meta['rank']
        (_, off0, st0, _n0), (_, off1, st1, _n1) = arr.dims
        if not (st0.concrete and st0.v == 1 and st1.concrete and st1.v == 1):
            raise Unsupported("masked row store through a strided view")
        eng.oblige(fr, s, 'store', 'mask-length', mask.length() == r, lineno)
        eng.oblige(fr, s, 'store', 'row-width', v.shape()[1] == c, lineno)
        old_read = st.content_reader(base, s.heap[base.id])

        def newrows(ix):
            i, j = ix[0] - off0, ix[1] - off1
            cond = And(i >= 0, i < r, j >= 0, j < c, to_bool(cell(snap, mask, i)))
            return merge_values(cond, st.coerce_elem(base, cell2(snap, v, rank(i), j), None), old_read(ix))
        s.heap[base.id] = st.fn_content(newrows)
        st.name_content(s, base)
        return
    if len(items) != 1 or arr.ndim != 1:
        raise Unsupported("fancy store form")
    kind, idx = items[0]
    base = arr.base
    n = arr.length()
    if isinstance(v, SArr) and kind == 'mask' and v.base.meta.get('mask') is not None \
            and v.base.meta['mask'].base is idx.base and base.kind == 'sym':
        # a[m] = f(a[m]) : the j-th selected cell receives the j-th value; with rank(k) = position of k among the
        # selected cells this is  new[k] = value[rank(k)]  for selected k
        rank = v.base.meta['rank']
        d0 = arr.rng_dims()[0]
        off0 = d0[1]
        if len(arr.dims) != 1 or not (d0[2].concrete and d0[2].v == 1):
            raise Unsupported("masked array store through a strided view")
        old_read = st.content_reader(base, s.heap[base.id])
        eng.oblige(fr, s, 'store', 'mask-length', idx.length() == n, lineno)

        def newfn2(ix):
            k = ix[0] - off0
            cond = And(k >= 0, k < n, to_bool(cell(snap, idx, k)))
            return merge_values(cond, st.coerce_elem(base, cell(snap, v, rank(k)), None), old_read(ix))
        s.heap[base.id] = st.fn_content(newfn2)
        st.name_content(s, base)
        return
    if isinstance(v, (SArr, STuple, SList)):
        raise Unsupported("fancy store of a sequence")
    val = st.coerce_elem(base, v, lambda k, c: eng.oblige(fr, s, k, 'value-fits-dtype', c, lineno))
    if kind == 'fancy':
        eng.oblige(fr, s, 'store', 'fancy-index-in-bounds', _all_cells(s, idx, lambda x: And(x >= 0, x < n)), lineno)
        m = idx.length()
        if m.concrete:
            for k in range(m.v):
                st.write(s, arr, [cell(snap, idx, SInt(k))], val)
            return
        hit = lambda kk: exists('int', lambda q: And(q >= 0, q < m, cell(snap, idx, q) == kk))
    else:
        eng.oblige(fr, s, 'store', 'mask-length', idx.length() == n, lineno)
        hit = lambda kk: to_bool(cell(snap, idx, kk))
    if base.kind != 'sym':
        cells = list(s.heap[base.id])
        for k in range(len(cells)):
            # only valid for plain whole-base 1-d views
            if not arr.is_plain():
                raise Unsupported("masked store through a view of a concrete array")
            cells[k] = merge_values(hit(SInt(k)), val, cells[k])
        s.heap[base.id] = tuple(cells)
        return
    d = arr.rng_dims()[0]
    _, off, stride, _n = d
    if len(arr.dims) != 1 or not (stride.concrete and stride.v == 1):
        raise Unsupported("masked store through a strided view")
    old_read = st.content_reader(base, s.heap[base.id])

    def newfn(idx):
        k = idx[0] - off
        cond = And(k >= 0, k < n, hit(k))
        return merge_values(cond, val, old_read(idx)) if not cond.concrete else (val if cond.v else old_read(idx))
    s.heap[base.id] = st.fn_content(newfn)
    st.name_content(s, base)


# ---------------------------------------------------------------------- operations with assumed contracts

def _compress_maps(s, n, mask, snap):
    """assumed contract of boolean-mask selection over n positions: a count m, a strictly increasing map
    pos[0..m) onto exactly the true positions, and its inverse rank"""
    m = SInt.fresh('cnt')
    pos = z3.Function(fresh_name('pos'), z3.IntSort(), z3.IntSort())
    s.assume(And(m >= 0, m <= n))
    P = lambda k: SInt(pos(to_int(k).z()))
    s.assume(forall('int', lambda k: Implies(And(k >= 0, k < m), And(P(k) >= 0, P(k) < n, to_bool(cell(snap, mask, P(k))))),
                    patterns=lambda k: [P(k)]))
    s.assume(forall(['int', 'int'], lambda a, b: Implies(And(a >= 0, a < b, b < m), P(a) < P(b)),
                    patterns=lambda a, b: [z3.MultiPattern(P(a).z(), P(b).z())]))
    # surjective onto the true cells: inverse function
    inv = z3.Function(fresh_name('rank'), z3.IntSort(), z3.IntSort())
    R = lambda j: SInt(inv(to_int(j).z()))
    s.assume(forall('int', lambda j: Implies(And(j >= 0, j < n, to_bool(cell(snap, mask, j))),
                                            And(R(j) >= 0, R(j) < m, P(R(j)) == j)),
                    patterns=lambda j: [R(j)]))
    # P is injective, so the rank of a selected position is its index in the result
    s.assume(forall('int', lambda k: Implies(And(k >= 0, k < m), R(P(k)) == k), patterns=lambda k: [P(k)]))
    return m, P, R


def compress(eng, s, fr, arr, mask, lineno):
    """arr[mask]: cells with mask true, in order.  Assumed contract: the result has some length m,
    there is a strictly increasing index map pos[0..m) into arr hitting exactly the true cells."""
    snap = _Snap(dict(s.heap))   # operands are read as they are NOW (numpy evaluates eagerly)
    n = arr.length()
    eng.oblige(fr, s, 'index', 'mask-length', mask.length() == n, lineno)
    if mask.base.kind == 'sym':
        st.name_content(s, mask.base)
    m, P, R = _compress_maps(s, n, mask, snap)
    res = new_lambda_array(s, arr.elem, arr.base.dtype, m, lambda k: cell(snap, arr, P(k)), 'compress')
    res.base.name = 'compress'
    res.base.meta.update({'pos': P, 'rank': R, 'mask': mask, 'count': m})
    return res


def np_nonzero(eng, s, fr, arr, lineno):
    if arr.ndim != 1:
        raise Unsupported("nonzero of n-d array")
    n = arr.length()
    idx = new_lambda_array(s, 'int', 'int64', n, lambda k: k, 'iota')
    mask = arr if arr.elem == 'bool' else new_lambda_array(s, 'bool', 'bool', n, lambda k: to_bool(cell(s, arr, k)), 'nz')
    return compress(eng, s, fr, idx, mask, lineno)


def np_concatenate(eng, s, fr, seq, lineno):
    snap = _Snap(dict(s.heap))   # operands are read as they are NOW (numpy evaluates eagerly)
    items = list(s.lists[seq.lid]) if isinstance(seq, SList) else list(seq.items)
    for k, x in enumerate(items):
        if isinstance(x, (SList, STuple)):       # a python sequence operand: np converts it to an array
            vals = list(s.lists[x.lid]) if isinstance(x, SList) else list(x.items)
            elem = 'bool' if all(isinstance(v, SBool) for v in vals) else ('float' if any(isinstance(v, SFloat) for v in vals) else 'int')
            a = st.new_conc_array(s, elem, {'bool': 'bool', 'float': 'float64', 'int': 'int64'}[elem], [len(vals)], None)
            s.heap[a.base.id] = tuple(_coerce(elem, v) for v in vals)
            items[k] = a
    snap = _Snap(dict(s.heap))
    if not all(isinstance(x, SArr) and x.ndim == 1 for x in items):
        raise Unsupported("concatenate of non-1-d arrays")
    total = SInt(0)
    starts = []
    for x in items:
        starts.append(total)
        total = total + x.length()
    elem = 'float' if any(x.elem == 'float' for x in items) else items[0].elem
    dtype = items[0].base.dtype

    def f(k):
        res = cell(snap, items[-1], k - starts[-1])
        for x, st0 in reversed(list(zip(items[:-1], starts[:-1]))):
            res = merge_values(k < st0 + x.length(), cell(snap, x, k - st0), res)
        return res
    return new_lambda_array(s, elem, dtype, total, f, 'concat')


def np_sort(eng, s, fr, arr, lineno):
    """assumed contract: result is a non-decreasing permutation of the input"""
    n = arr.length()
    res = st.new_sym_array(s, arr.elem, arr.base.dtype, [n], 'sorted')
    perm = z3.Function(fresh_name('perm'), z3.IntSort(), z3.IntSort())
    pinv = z3.Function(fresh_name('pinv'), z3.IntSort(), z3.IntSort())
    P = lambda k: SInt(perm(to_int(k).z()))
    Q = lambda k: SInt(pinv(to_int(k).z()))
    s.assume(forall('int', lambda k: Implies(And(k >= 0, k < n), And(P(k) >= 0, P(k) < n, Q(P(k)) == k,
                                                                    cell(s, res, k) == cell(s, arr, P(k)))),
                    patterns=lambda k: [P(k)]))
    s.assume(forall('int', lambda j: Implies(And(j >= 0, j < n), And(Q(j) >= 0, Q(j) < n, P(Q(j)) == j)),
                    patterns=lambda j: [Q(j)]))
    s.assume(forall(['int', 'int'], lambda a, b: Implies(And(a >= 0, a <= b, b < n), cell(s, res, a) <= cell(s, res, b))))
    return res


def reduce_minmax(eng, s, fr, arr, which, lineno):
    """np.min / np.max / builtin min over a 1-d array in numba: NaN-propagating reduction; requires
    a non-empty array (numba raises ValueError on empty)."""
    if arr.ndim != 1:
        raise Unsupported("min/max of n-d array")
    n = arr.length()
    eng.oblige(fr, s, 'safety', f'{which}-of-nonempty', n > 0, lineno)
    if n.concrete:
        acc = cell(s, arr, SInt(0))
        for k in range(1, n.v):
            x = cell(s, arr, SInt(k))
            acc = _nanprop(which, acc, x)
        return acc
    from .speclib import ARR_MINMAX
    return ARR_MINMAX(s, arr, which)


def _nanprop(which, acc, x):
    if isinstance(acc, SInt) and isinstance(x, SInt):
        return Ite((x < acc) if which == 'min' else (x > acc), x, acc)
    acc, x = to_float(acc), to_float(x)
    better = (x < acc) if which == 'min' else (x > acc)
    return Ite(acc.is_nan(), acc, Ite(x.is_nan(), x, Ite(better, x, acc)))
