"""Runs under /venv/bin/python: call a REAL function of /repo on concrete inputs and report what it did.

stdin: JSON {"repo": "/repo", "target": "path.py::qual.name", "args": [typed...], "py_func": bool}
stdout: JSON {"ok": true, "result": typed, "post_args": [typed...]} | {"ok": false, "exc": ..., "msg": ...}
"""
import importlib
import json
import math
import os
import sys


def enc_float(f):
    f = float(f)
    if math.isnan(f):
        return 'nan'
    if math.isinf(f):
        return 'inf' if f > 0 else '-inf'
    return f.hex()


def dec_float(s):
    if isinstance(s, (int, float)):
        return float(s)
    if s in ('nan', 'inf', '-inf'):
        return float(s)
    return float.fromhex(s)


def decode(v, np):
    k = v['k']
    if k == 'int':
        return int(v['v'])
    if k == 'bool':
        return bool(v['v'])
    if k == 'float':
        return dec_float(v['v'])
    if k == 'none':
        return None
    if k == 'tuple':
        return tuple(decode(x, np) for x in v['items'])
    if k == 'list':
        return [decode(x, np) for x in v['items']]
    if k == 'array':
        dt = np.dtype(v['dtype'])
        data = v['data']
        if dt.kind == 'f':
            flat = [dec_float(x) for x in _flatten(data)]
        elif dt.kind == 'b':
            flat = [bool(x) for x in _flatten(data)]
        else:
            flat = [int(x) for x in _flatten(data)]
        return np.array(flat, dtype=dt).reshape(v['shape'])
    if k == 'record':
        return build_record(v, np)
    if k == 'func':
        return resolve_func(v['name'])
    raise ValueError('cannot decode ' + k)


def _flatten(x):
    if isinstance(x, list):
        for y in x:
            yield from _flatten(y)
    else:
        yield x


def encode(x, np):
    if x is None:
        return {'k': 'none'}
    if isinstance(x, (bool, np.bool_)):
        return {'k': 'bool', 'v': bool(x)}
    if isinstance(x, (int, np.integer)):
        return {'k': 'int', 'v': int(x)}
    if isinstance(x, (float, np.floating)):
        return {'k': 'float', 'v': enc_float(x)}
    if isinstance(x, tuple):
        return {'k': 'tuple', 'items': [encode(y, np) for y in x]}
    if isinstance(x, list):
        return {'k': 'list', 'items': [encode(y, np) for y in x]}
    if isinstance(x, np.ndarray):
        if x.dtype.kind == 'f':
            data = [enc_float(y) for y in x.ravel().tolist()]
        elif x.dtype.kind == 'b':
            data = [bool(y) for y in x.ravel().tolist()]
        else:
            data = [int(y) for y in x.ravel().tolist()]
        return {'k': 'array', 'dtype': str(x.dtype), 'shape': list(x.shape), 'data': data}
    try:
        from spatialpandas.geometry.baselist import GeometryListArray
        if isinstance(x, GeometryListArray):
            return encode_list_array(x, np)
    except Exception:
        pass
    try:
        import numba.typed
        if isinstance(x, numba.typed.List):
            return {'k': 'list', 'items': [encode(y, np) for y in x]}
    except Exception:
        pass
    return {'k': 'other', 'repr': '<' + type(x).__name__ + '>'}


def encode_list_array(x, np):
    """a real geometry list array as the record of the representation model (offset, length, bufs)"""
    la = x.data
    bufs = la.buffers()
    items = []
    nb = len(bufs)
    for k, b in enumerate(bufs):
        if b is None:
            items.append({'k': 'none'})
        elif k == nb - 1:
            a = np.frombuffer(b, dtype=x.numpy_dtype)
            items.append({'k': 'array', 'dtype': 'float64', 'shape': [len(a)], 'data': [enc_float(v) for v in a.astype('float64').tolist()]})
        elif k % 2 == 1:
            a = np.frombuffer(b, dtype='uint32')
            items.append({'k': 'array', 'dtype': 'uint32', 'shape': [len(a)], 'data': [int(v) for v in a.tolist()]})
        else:
            a = np.frombuffer(b, dtype='uint8')
            items.append({'k': 'array', 'dtype': 'uint8', 'shape': [len(a)], 'data': [int(v) for v in a.tolist()]})
    rep = {'k': 'record', 'cls': 'ListArray', 'fields': {'offset': {'k': 'int', 'v': int(la.offset)},
                                                        'length': {'k': 'int', 'v': len(la)},
                                                        'bufs': {'k': 'tuple', 'items': items}}}
    return {'k': 'record', 'cls': type(x).__name__, 'fields': {'listarray': rep, 'data': rep}}


def resolve(target):
    path, qual = target.split('::')
    mod = importlib.import_module(path[:-3].replace('/', '.'))
    obj = mod
    for part in qual.split('.'):
        obj = getattr(obj, part)
    return obj


def resolve_func(name):
    import spatialpandas.geometry._algorithms.measures as m
    if hasattr(m, name):
        return getattr(m, name)
    raise ValueError('unknown function value ' + name)


def _np_arr(x, np, dtype):
    return np.asarray(x, dtype=dtype)


def build_list_array(f, np, coord_dtype=None):
    """a real pyarrow ListArray from the model of its buffers (offset, length, bufs); the coordinate buffer is given
    the coordinate subtype named by the generator (values are exactly representable in it), float64 by default"""
    import pyarrow as pa
    bufs = f['bufs']
    levels = (len(bufs) - 2) // 2
    values = pa.array(np.asarray(bufs[-1], dtype='float64').astype(coord_dtype or 'float64'))
    child = values
    for k in range(levels - 1, 0, -1):
        off = np.asarray(bufs[2 * k + 1], dtype='int64').astype('int32')
        child = pa.ListArray.from_arrays(pa.array(off, type=pa.int32()), child)
    off0 = np.asarray(bufs[1], dtype='int64').astype('int32')
    valid = bufs[0]
    vbuf = None
    if valid is not None and len(valid):
        vbuf = pa.py_buffer(np.asarray(valid, dtype='uint8').tobytes())
    return pa.ListArray.from_buffers(pa.list_(child.type), int(f['length']), [vbuf, pa.py_buffer(off0.tobytes())],
                                     offset=int(f['offset']), children=[child])


class _Stub:
    pass


def build_record(v, np):
    cls = v['cls']
    f = {k: decode(x, np) for k, x in v['fields'].items() if x.get('k') not in ('other',)}
    if cls == '_NumbaRtree':
        from spatialpandas.spatialindex.rtree import _NumbaRtree
        return _NumbaRtree(np.ascontiguousarray(f['_bounds'], dtype='float64'),
                           np.ascontiguousarray(f['_keys'], dtype='int64'), int(f['_page_size']),
                           np.ascontiguousarray(f['_bounds_tree'], dtype='float64'))
    if cls == 'ListArray':
        return build_list_array(f, np, (v['fields'].get('coord_dtype') or {}).get('v'))
    if cls == 'FixedArray':
        import pyarrow as pa
        cd = (v['fields'].get('coord_dtype') or {}).get('v') or 'float64'
        bufs = f['bufs']
        vals = np.asarray(bufs[1], dtype='float64').astype(cd)
        valid = bufs[0]
        vbuf = pa.py_buffer(np.asarray(valid, dtype='uint8').tobytes()) if valid is not None and len(valid) else None
        return (pa.Array.from_buffers(pa.binary(2 * vals.dtype.itemsize), int(f['length']), [vbuf, pa.py_buffer(vals.tobytes())],
                                      offset=int(f['offset'])), cd)
    if cls == 'PointArray':
        import spatialpandas.geometry as g
        arr, cd = f['data']
        return g.PointArray(arr, dtype=cd)
    if cls in ('LineArray', 'MultiPointArray', 'RingArray', 'PolygonArray', 'MultiLineArray', 'MultiPolygonArray'):
        import spatialpandas.geometry as g
        return getattr(g, cls)(f['listarray'])
    if cls in ('Polygon', 'MultiPolygon', 'MultiPoint') and 'buffer_values' in f:
        import spatialpandas.geometry as g
        vals = [float(x) for x in f['buffer_values']]
        if cls == 'MultiPoint':
            return g.MultiPoint(vals)
        offs = [int(x) for x in f['buffer_inner_offsets']]
        rings = [vals[a:b] for a, b in zip(offs, offs[1:])]
        return g.Polygon(rings) if cls == 'Polygon' else g.MultiPolygon([rings])
    if cls == 'Point' and 'x' in f:
        import spatialpandas.geometry as g
        return g.Point(np.array([float(f['x']), float(f['y'])], dtype='float64'))
    if cls == 'slice':
        return slice(f.get('start'), f.get('stop'), f.get('step'))
    if cls in ('HilbertRtree', 'GeometryArrayTB'):
        o = _Stub()
        o.total_bounds = tuple(f.get('total_bounds', (float('nan'),) * 4))
        return o
    if cls == '_CoordinateIndexer':
        from spatialpandas.geometry.base import _CoordinateIndexer
        o = _CoordinateIndexer.__new__(_CoordinateIndexer)
        o._sindex = f.get('_sindex')
        o._obj = f.get('_obj')
        o._parent = None
        return o
    raise ValueError('cannot build record of class ' + cls)


def run_one(req, np, cache):
    try:
        key = (req['target'], bool(req.get('py_func')))
        if key not in cache:
            fn = resolve(req['target'])
            if req.get('py_func') and hasattr(fn, 'py_func'):
                fn = fn.py_func
            cache[key] = fn
        fn = cache[key]
        try:
            args = [decode(a, np) for a in req['args']]
        except BaseException as e:  # noqa: the input could not be built as a real object: not a finding
            return {'ok': False, 'input_error': f'{type(e).__name__}: {e}'[:300]}
        if isinstance(fn, property):
            res = fn.fget(*args)
        else:
            res = fn(*args)
        return {'ok': True, 'result': encode(res, np), 'post_args': [encode(a, np) for a in args]}
    except BaseException as e:  # noqa
        return {'ok': False, 'exc': type(e).__name__, 'msg': str(e)[:500]}


def main():
    req = json.load(sys.stdin)
    repo = req.get('repo', '/repo')
    sys.path.insert(0, repo)
    os.chdir(repo)
    import numpy as np
    cache = {}
    if 'calls' in req:
        out = {'results': [run_one(dict(c, target=c.get('target', req.get('target')),
                                        py_func=c.get('py_func', req.get('py_func'))), np, cache)
                           for c in req['calls']]}
    else:
        out = run_one(req, np, cache)
    sys.stdout.write(json.dumps(out))


if __name__ == '__main__':
    main()
