"""Witness search for obligations the solver leaves undecided (quantified VCs are refuted much less
readily than they are proved): generate small inputs satisfying `requires`, run the REAL function,
evaluate the contract clauses on what it returned.  A witness is a confirmed failing input on the
real code; finding none decides nothing.  The same loop, run on the unchanged tree, cross-checks the
engine's semantics against the real compiled code (DESIGN 3.8.4)."""
import json
import os
import random
import subprocess

from . import replay as rp
from .contracts import Arr, Bool, Flt, Fn, Int, ListOf, Rec, Tup

SMALL = [0, 1, -1, 2, 3, -2, 4, 0.5, 1.5, -0.5, 2.5]


def gen_float(rng, finite):
    r = rng.random()
    if not finite and r < 0.12:
        return rng.choice(['nan', 'inf', '-inf'])
    return float(rng.choice(SMALL)).hex()


def gen_value(spec, rng, config, name=''):
    if hasattr(spec, 'gen'):
        return spec.gen(rng, config)
    if isinstance(spec, Int):
        if spec.conc is not None:
            return {'k': 'int', 'v': spec.conc}
        if config and name in config:
            return {'k': 'int', 'v': config[name]}
        return {'k': 'int', 'v': rng.choice([0, 1, 2, 3, 4, 5, -1, 7])}
    if isinstance(spec, Flt):
        return {'k': 'float', 'v': gen_float(rng, spec.finite)}
    if isinstance(spec, Bool):
        return {'k': 'bool', 'v': rng.random() < 0.5}
    if isinstance(spec, Arr):
        if spec.conc_shape or spec.conc_len is not None:
            shape = list(spec.conc_shape or (spec.conc_len,))
        elif spec.ndim == 1:
            shape = [rng.choice([0, 1, 2, 2, 3, 4, 4, 5, 6, 8])]
        else:
            shape = [rng.choice([0, 1, 2, 3, 4]), spec.cols or rng.choice([2, 4])]
        n = 1
        for x in shape:
            n *= x
        if spec.elem == 'float':
            data = [gen_float(rng, spec.finite) for _ in range(n)]
            if rng.random() < 0.25:
                # very small / large magnitudes (a power-of-two factor: exact) - tolerance-based shortcuts show here
                f = rng.choice([2.0 ** -14, 2.0 ** -20, 2.0 ** -30, 2.0 ** 12])
                data = [d if d in ('nan', 'inf', '-inf') else (float.fromhex(d) * f).hex() for d in data]
        elif spec.elem == 'bool':
            data = [rng.random() < 0.4 for _ in range(n)]
        elif spec.dtype.startswith('uint'):
            if rng.random() < 0.8:
                cur, data = rng.choice([0, 0, 0, 2]), []
                for _ in range(n):
                    data.append(cur)
                    cur += rng.choice([0, 2, 2, 4, 6, 1])
            else:
                data = [rng.randint(0, 8) for _ in range(n)]
        else:
            data = [rng.randint(-2, 9) for _ in range(n)]
        return {'k': 'array', 'dtype': 'bool' if spec.elem == 'bool' else spec.dtype, 'shape': shape, 'data': data}
    if isinstance(spec, Tup):
        return {'k': 'tuple', 'items': [gen_value(x, rng, config) for x in spec.items]}
    if isinstance(spec, ListOf):
        return {'k': 'list', 'items': [gen_value(spec.item, rng, config) for _ in range(spec.n)]}
    if isinstance(spec, Rec):
        return {'k': 'record', 'cls': spec.cls, 'fields': {f: gen_value(x, rng, config, f) for f, x in spec.fields.items()}}
    if isinstance(spec, Fn):
        return {'k': 'func', 'name': spec.name}
    if type(spec).__name__ == 'NoneSort':
        return {'k': 'none'}
    raise rp.ReplayError(f'no generator for sort {type(spec).__name__}')


def gen_inputs(contract, config, rng):
    g = getattr(contract, 'gen', None)
    if g is not None:
        return g(rng, config or {})
    return [gen_value(spec, rng, config, name) for name, spec in contract.param_list(config)]


def call_batch(target, list_of_args, py_func=False, repo=None, timeout=600):
    req = {'repo': repo or os.environ.get('PYVC_REPO', '/repo'), 'target': target, 'py_func': py_func,
           'calls': [{'args': a} for a in list_of_args]}
    env = dict(os.environ)
    env.pop('PYTHONPATH', None)
    p = subprocess.run([rp.VENV_PY, os.path.join(rp.HERE, 'native_call.py')], input=json.dumps(req), text=True,
                       capture_output=True, timeout=timeout, env=env)
    if p.returncode != 0 or not p.stdout.strip():
        raise rp.ReplayError(f'native batch failed: rc={p.returncode} {p.stderr[-400:]}')
    return json.loads(p.stdout)['results']


def search(contract, config, n, seed, max_tries_factor=30, budget_s=None):
    """returns dict(evaluated=int, witness=None|{input,native,check})"""
    if contract.target.startswith('<abstract>'):
        return {'evaluated': 0, 'witness': None, 'generated': 0}
    import time as _t
    t_start = _t.time()
    rng = random.Random(f'{seed}/{contract.target}')
    good = []
    tries = 0
    while len(good) < n and tries < n * max_tries_factor:
        if budget_s is not None and _t.time() - t_start > budget_s / 2 and good:
            break
        tries += 1
        try:
            args = gen_inputs(contract, config, rng)
            chk = rp.check_requires(contract, config, args)
        except rp.ReplayError:
            break
        except Exception:
            continue
        if chk is True:
            good.append(args)
    if not good:
        return {'evaluated': 0, 'witness': None, 'generated': tries}
    results = call_batch(contract.target, good)
    evaluated = 0
    for args, native in zip(good, results):
        if native.get('input_error'):
            continue
        if budget_s is not None and evaluated >= 2 and _t.time() - t_start > budget_s:
            break
        try:
            chk = rp.check_concrete(contract, config, args, native)
        except Exception as e:
            continue
        evaluated += 1
        if chk['violated'] and chk['requires_ok'] is True:
            return {'evaluated': evaluated, 'generated': tries, 'witness': {'input': args, 'native': native, 'check': chk}}
    return {'evaluated': evaluated, 'witness': None, 'generated': tries}
