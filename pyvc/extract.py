"""Locate the real function in /repo's current working tree (DESIGN 3.1).

What is dropped from the text that is verified: decorators, docstrings, comments, annotations.
Nothing is rewritten; the sha256 of the extracted source segment is reported in the evidence."""
import ast
import hashlib
import os

REPO = os.environ.get('PYVC_REPO', '/repo')

_cache = {}


class ExtractionError(Exception):
    pass


def _module(path):
    full = os.path.join(REPO, path)
    key = full
    if key not in _cache:
        try:
            with open(full) as f:
                src = f.read()
        except OSError as e:
            raise ExtractionError(f"cannot read {full}: {e}")
        try:
            tree = ast.parse(src, filename=full)
        except SyntaxError as e:
            raise ExtractionError(f"cannot parse {full}: {e}")
        _cache[key] = (src, tree)
    return _cache[key]


def clear_cache():
    global _class_table
    _cache.clear()
    _class_table = None


def find_function(target):
    """target = 'relative/path.py::Class.method' -> (FunctionDef, source_segment, sha256, decorators)"""
    path, qual = target.split('::')
    src, tree = _module(path)
    node = tree
    for part in qual.split('.'):
        found = None
        for ch in ast.iter_child_nodes(node):
            if isinstance(ch, (ast.FunctionDef, ast.ClassDef)) and ch.name == part:
                found = ch   # last definition wins, as in Python
        if found is None:
            # nested inside if/try blocks at module level
            for ch in ast.walk(node):
                if isinstance(ch, (ast.FunctionDef, ast.ClassDef)) and ch.name == part and ch is not node:
                    found = ch
                    break
        if found is None:
            raise ExtractionError(f"{target}: {part!r} not found")
        node = found
    if not isinstance(node, ast.FunctionDef):
        raise ExtractionError(f"{target}: not a function")
    seg = ast.get_source_segment(src, node) or ''
    sha = hashlib.sha256(seg.encode()).hexdigest()
    decos = [ast.unparse(d) for d in node.decorator_list]
    return node, seg, sha, decos


def body_without_docstring(fn):
    body = list(fn.body)
    if body and isinstance(body[0], ast.Expr) and isinstance(body[0].value, ast.Constant) \
            and isinstance(body[0].value.value, str):
        body = body[1:]
    return body


def param_names(fn):
    a = fn.args
    return [x.arg for x in a.posonlyargs + a.args] + [x.arg for x in a.kwonlyargs]


def module_constants(path):
    """simple module-level NAME = constant assignments (used for things like ngjit aliases: ignored)"""
    src, tree = _module(path)
    out = {}
    for ch in tree.body:
        if isinstance(ch, ast.Assign) and len(ch.targets) == 1 and isinstance(ch.targets[0], ast.Name):
            if isinstance(ch.value, ast.Constant):
                out[ch.targets[0].id] = ch.value.value
    return out


_class_table = None


def class_table():
    """{class name: [base class names]} for every class defined in the repository package (from the AST)"""
    global _class_table
    if _class_table is None:
        tbl = {}
        root = os.path.join(REPO, 'spatialpandas')
        for dp, dn, fn in os.walk(root):
            if 'tests' in dp.split(os.sep):
                continue
            for f in fn:
                if not f.endswith('.py'):
                    continue
                try:
                    with open(os.path.join(dp, f)) as fh:
                        tree = ast.parse(fh.read())
                except (OSError, SyntaxError):
                    continue
                for node in ast.walk(tree):
                    if isinstance(node, ast.ClassDef):
                        bases = []
                        for b in node.bases:
                            if isinstance(b, ast.Name):
                                bases.append(b.id)
                            elif isinstance(b, ast.Attribute):
                                bases.append(b.attr)
                        tbl[node.name] = bases
        _class_table = tbl
    return _class_table


def mro(cls):
    """simple depth-first linearisation (sufficient for the single-inheritance-plus-mixin classes here)"""
    tbl = class_table()
    out = []

    def walk(c):
        if c in out:
            return
        out.append(c)
        for b in tbl.get(c, []):
            walk(b)
    walk(cls)
    return out
