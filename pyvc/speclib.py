"""Assumed contracts of numpy/numba reductions over arrays of symbolic length (DESIGN App. A)."""
import z3

from .values import (FIN, NAN, SBool, SFloat, SInt, And, Implies, Ite, Not, Or, exists, forall, fresh_name, to_float)


def ARR_MINMAX(s, arr, which):
    """np.min / np.max / builtin min,max over a non-empty 1-d array (numba): the extreme element;
    for floats any NaN element makes the result NaN (NaN-propagating reduction)."""
    from .builtins_np import cell
    n = arr.length()
    w = SInt.fresh('argm')
    s.assume(And(w >= 0, w < n))
    if arr.elem == 'int':
        r = cell(s, arr, w)
        s.assume(forall('int', lambda k: Implies(And(k >= 0, k < n),
                                                 (r <= cell(s, arr, k)) if which == 'min' else (r >= cell(s, arr, k)))))
        return r
    if arr.base.finite:
        r = cell(s, arr, w)
        s.assume(forall('int', lambda k: Implies(And(k >= 0, k < n),
                                                 (r <= cell(s, arr, k)) if which == 'min' else (r >= cell(s, arr, k)))))
        return r
    # general floats: NaN-propagating
    rw = cell(s, arr, w)
    anynan = exists('int', lambda k: And(k >= 0, k < n, to_float(cell(s, arr, k)).is_nan()))
    s.assume(Implies(anynan, rw.is_nan()))
    s.assume(Implies(Not(anynan), forall('int', lambda k: Implies(
        And(k >= 0, k < n), (rw <= cell(s, arr, k)) if which == 'min' else (rw >= cell(s, arr, k))))))
    return rw
