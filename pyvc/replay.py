"""Counterexample replay (DESIGN 3.7): solver model -> inputs of the real function -> run the real
(compiled) function under /venv/bin/python -> evaluate the contract's clauses on what it returned."""
import json
import math
import os
import subprocess
from fractions import Fraction

import z3

from . import state as st
from .contracts import (Arr, Bool, Ctx, Flt, Fn, Int, ListOf, Rec, Tup, labelled, spec_unfoldings, wrap)
from .values import (FIN, NAN, NINF, NONE, PINF, Mode, SArr, SBool, SFloat, SFunc, SInt, SList, SRecord, STuple,
                     Base, int_sort, to_bool)

VENV_PY = '/venv/bin/python'
HERE = os.path.dirname(os.path.abspath(__file__))


class ReplayError(Exception):
    pass


# ---------------------------------------------------------------------- model -> typed values

def _frac(v):
    if isinstance(v, dict):
        return Fraction(v['num'], v['den'])
    return Fraction(v)


def _float_typed(tag, v):
    if tag == PINF:
        return {'k': 'float', 'v': 'inf'}
    if tag == NINF:
        return {'k': 'float', 'v': '-inf'}
    if tag == NAN:
        return {'k': 'float', 'v': 'nan'}
    f = float(_frac(v))
    return {'k': 'float', 'v': f.hex(), 'exact': Fraction(f) == _frac(v)}


def model_to_typed(m, spec=None):
    k = m.get('k')
    if k == 'int':
        return {'k': 'int', 'v': m['v']}
    if k == 'bool':
        return {'k': 'bool', 'v': bool(m['v'])}
    if k == 'float':
        return _float_typed(m.get('tag', FIN), m['v'])
    if k == 'tuple':
        return {'k': 'tuple', 'items': [model_to_typed(x) for x in m['items']]}
    if k == 'list':
        return {'k': 'list', 'items': [model_to_typed(x) for x in m['items']]}
    if k == 'func':
        return {'k': 'func', 'name': m['name']}
    if k == 'record':
        return {'k': 'record', 'cls': m['cls'], 'fields': {f: model_to_typed(x) for f, x in m['fields'].items()}}
    if k == 'array':
        shape = m['shape']
        if not all(isinstance(x, int) for x in shape):
            raise ReplayError('array shape not concrete in model')
        n = 1
        for x in shape:
            n *= max(x, 0)
        cells = m.get('cells')
        if cells is None:
            raise ReplayError('array cells missing in model')
        elem = m['elem']
        data = []
        if cells and isinstance(cells[0], dict) and 'i' in cells[0]:
            bymap = {tuple(c['i']): c for c in cells}
            import itertools
            for ix in itertools.product(*[range(max(x, 0)) for x in shape]):
                c = bymap.get(tuple(ix))
                if c is None:
                    raise ReplayError('array longer than the model cell cap')
                data.append(_cell_typed(elem, c.get('tag', FIN), c['v']))
        else:
            for c in cells:
                t = model_to_typed(c)
                data.append(t['v'])
        return {'k': 'array', 'dtype': m['dtype'] if m['dtype'] != 'bool' else 'bool', 'shape': [max(x, 0) for x in shape],
                'data': data}
    if k == 'other':
        return {'k': 'none'} if m.get('repr') == 'SNone' else {'k': 'other', 'repr': m.get('repr')}
    raise ReplayError(f'cannot convert model value of kind {k}')


def _cell_typed(elem, tag, v):
    if elem == 'float':
        return _float_typed(tag, v)['v']
    if elem == 'bool':
        return bool(v)
    return int(v)


# ---------------------------------------------------------------------- native call

def call_native(target, typed_args, py_func=False, repo=None, timeout=300):
    req = {'repo': repo or os.environ.get('PYVC_REPO', '/repo'), 'target': target, 'args': typed_args,
           'py_func': py_func}
    env = dict(os.environ)
    env.pop('PYTHONPATH', None)
    env['NUMBA_DISABLE_PERFORMANCE_WARNINGS'] = '1'
    p = subprocess.run([VENV_PY, os.path.join(HERE, 'native_call.py')], input=json.dumps(req), text=True,
                       capture_output=True, timeout=timeout, env=env)
    if p.returncode != 0 or not p.stdout.strip():
        raise ReplayError(f'native call failed: rc={p.returncode} {p.stderr[-400:]}')
    return json.loads(p.stdout)


# ---------------------------------------------------------------------- typed -> symbolic-layer concrete values

def _dec_float(s):
    if isinstance(s, (int, float)):
        return float(s)
    if s in ('nan', 'inf', '-inf'):
        return float(s)
    return float.fromhex(s)


def typed_to_value(t, state):
    k = t['k']
    if k == 'int':
        return SInt(int(t['v']))
    if k == 'bool':
        return SBool(bool(t['v']))
    if k == 'float':
        return SFloat.const(_dec_float(t['v']))
    if k == 'none':
        return NONE
    if k == 'tuple':
        return STuple(typed_to_value(x, state) for x in t['items'])
    if k == 'list':
        return state.new_list([typed_to_value(x, state) for x in t['items']])
    if k == 'func':
        return SFunc(t['name'])
    if k == 'record':
        return SRecord(t['cls'], {f: typed_to_value(x, state) for f, x in t['fields'].items()})
    if k == 'array':
        return concrete_array(t, state)
    if k == 'other':
        return NONE
    raise ReplayError(f'cannot lift typed value {k}')


def concrete_array(t, state, base=None):
    """a 'sym'-kind base whose content is an explicit constant array (so spec functions can read it)"""
    dt = t['dtype']
    elem = 'float' if dt.startswith('float') else 'bool' if dt.startswith('bool') else 'int'
    shape = t['shape']
    if base is None:
        base = Base(elem, 'bool' if elem == 'bool' else dt, tuple(SInt(x) for x in shape), 'sym', 'replay')
    idx = [int_sort()] * len(shape)
    if elem == 'float':
        val = st._const_array(idx, z3.RealVal(0)) if len(idx) > 1 else z3.K(idx[0], z3.RealVal(0))
        tag = st._const_array(idx, z3.IntVal(FIN)) if len(idx) > 1 else z3.K(idx[0], z3.IntVal(FIN))
    elif elem == 'int':
        val = z3.K(idx[0], SInt(0).z()) if len(idx) == 1 else st._const_array(idx, SInt(0).z())
        tag = None
    else:
        val = z3.K(idx[0], z3.BoolVal(False)) if len(idx) == 1 else st._const_array(idx, z3.BoolVal(False))
        tag = None
    import itertools
    for pos, ix in enumerate(itertools.product(*[range(x) for x in shape])):
        zi = [SInt(i).z() for i in ix]
        d = t['data'][pos]
        if elem == 'float':
            f = SFloat.const(_dec_float(d))
            val = z3.Store(val, *zi, f.val)
            tag = z3.Store(tag, *zi, f.ztag())
        elif elem == 'int':
            val = z3.Store(val, *zi, SInt(int(d)).z())
        else:
            val = z3.Store(val, *zi, z3.BoolVal(bool(d)))
    state.heap[base.id] = {'val': val, 'tag': tag, 'fn': None}
    return st.full_view(base)


def _refill(v, t, heap_state):
    """give the arrays inside value v (built from the pre-state) their post-state content from typed t"""
    if isinstance(v, SArr) and t['k'] == 'array':
        concrete_array(t, heap_state, base=v.base)
    elif isinstance(v, STuple) and t['k'] in ('tuple', 'list'):
        for x, y in zip(v.items, t['items']):
            _refill(x, y, heap_state)
    elif isinstance(v, SRecord) and t['k'] == 'record':
        for f, x in v.fields.items():
            if f in t['fields']:
                _refill(x, t['fields'][f], heap_state)


def ground_truth(clause, fuel):
    """decide a ground clause: True / False / None (undetermined)"""
    c = to_bool(clause)
    if c.concrete:
        return c.v
    s = z3.Solver()
    s.set('timeout', 20000)
    for eq in spec_unfoldings([c.z()], fuel=fuel):
        s.add(eq)
    s.push()
    s.add(z3.Not(c.z()))
    r1 = s.check()
    s.pop()
    if r1 == z3.unsat:
        return True
    s.push()
    s.add(c.z())
    r2 = s.check()
    s.pop()
    if r2 == z3.unsat:
        return False
    return None


def _fuel_for(typed_args):
    """enough unfolding steps for recursive specs over the concrete arrays at hand"""
    def cells(t):
        if not isinstance(t, dict):
            return 0
        if t.get('k') == 'array':
            n = 1
            for x in t.get('shape', []):
                n *= max(int(x), 1)
            return n
        if t.get('k') in ('tuple', 'list'):
            return sum(cells(x) for x in t['items'])
        if t.get('k') == 'record':
            return sum(cells(x) for x in t['fields'].values())
        return 0
    return min(64, 6 + max([cells(t) for t in typed_args] + [0]))


def check_requires(contract, config, typed_args, fuel=None):
    fuel = fuel or _fuel_for(typed_args)
    """True / False / None : do the inputs satisfy the contract's requires?"""
    Mode.int_mode = contract.int_mode
    pre = st.State()
    params = contract.param_list(config)
    vals = {}
    for (name, _), t in zip(params, typed_args):
        vals[name] = typed_to_value(t, pre)
    ctx_pre = Ctx(vals, dict(pre.heap), dict(pre.lists), config=config or {})
    ok = True
    for label, b in labelled(contract.requires(ctx_pre) if contract.requires else None, 'requires'):
        g = ground_truth(b, fuel)
        if g is False:
            return False
        if g is None:
            ok = None
    return ok


def check_concrete(contract, config, typed_args, native, fuel=None):
    fuel = fuel or _fuel_for(typed_args)
    """evaluate requires on the inputs and ensures on (inputs, real outputs).
    returns dict(requires_ok=bool|None, violated=[labels], undetermined=[labels], raised=...)"""
    Mode.int_mode = contract.int_mode
    pre = st.State()
    params = contract.param_list(config)
    vals = {}
    for (name, _), t in zip(params, typed_args):
        vals[name] = typed_to_value(t, pre)
    pre_heap = dict(pre.heap)
    pre_lists = dict(pre.lists)
    ctx_pre = Ctx(vals, pre_heap, pre_lists, config=config or {})
    out = {'requires_ok': True, 'violated': [], 'undetermined': [], 'raised': None}
    for label, b in labelled(contract.requires(ctx_pre) if contract.requires else None, 'requires'):
        g = ground_truth(b, fuel)
        if g is False:
            out['requires_ok'] = False
        elif g is None and out['requires_ok']:
            out['requires_ok'] = None
    if not native.get('ok'):
        out['raised'] = native.get('exc')
        allowed = False
        if contract.raises:
            for exc, cond in contract.raises(ctx_pre):
                if exc == native.get('exc') and ground_truth(cond, fuel) is True:
                    allowed = True
        if not allowed:
            out['violated'].append(f"raised-{native.get('exc')}")
        return out
    post = pre.clone()
    post.heap = dict(pre_heap)
    for (name, _), t in zip(params, native['post_args']):
        if name in contract.modifies or True:
            _refill(vals[name], t, post)
    result = typed_to_value(native['result'], post)
    post_ctx = Ctx(vals, post.heap, post.lists, config=config or {})
    ctx = Ctx(vals, pre_heap, pre_lists, post=post_ctx, config=config or {})
    r = wrap(result, post_ctx._sink)
    for label, b in labelled(contract.ensures(ctx, r) if contract.ensures else None, 'ensures'):
        g = ground_truth(b, fuel)
        if g is False:
            out['violated'].append(label)
        elif g is None:
            out['undetermined'].append(label)
    # frame
    for (name, _) in params:
        if name in contract.modifies:
            continue
    if contract.raises:
        for exc, cond in contract.raises(ctx_pre):
            if ground_truth(cond, fuel) is True:
                out['violated'].append(f'should-raise-{exc}')
    return out


def replay_failure(contract, ob, result):
    """returns dict(confirmed=bool, input=typed args, native=..., check=...) or raises ReplayError"""
    if not result.model:
        raise ReplayError('no model')
    params = contract.param_list(ob.config)
    typed = []
    for name, spec in params:
        if name not in result.model:
            raise ReplayError(f'model has no value for {name}')
        typed.append(model_to_typed(result.model[name], spec))
    native = call_native(contract.target, typed, py_func=(ob.kind in ('index', 'store')))
    if native.get('input_error'):
        raise ReplayError('the counter-model could not be turned into a real input: ' + native['input_error'])
    chk = check_concrete(contract, ob.config, typed, native)
    confirmed = bool(chk['violated']) and chk['requires_ok'] is not False
    if ob.kind in ('index', 'store') and not native.get('ok') and native.get('exc') == 'IndexError' \
            and chk['requires_ok'] is not False:
        confirmed = True
    return {'confirmed': confirmed, 'input': typed, 'native': native, 'check': chk}
