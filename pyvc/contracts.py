"""Contract language: sort specs, function contracts, loop specs, spec functions, lemmas, registry.

Contracts are sidecar Python modules under /verif/contracts.  They never import the
repository; `requires`/`ensures`/`invariant` are Python callables that build z3 terms through
the symbolic value layer (pyvc.values) from the parameter / local values the engine hands them.
"""
import z3

from . import state as st
from .values import (FIN, NONE, GList, SArr, SBool, SFloat, SFunc, SInt, SList, SRecord, STuple, Unsupported,
                     And, Implies, fresh_name, int_sort, to_bool, to_float, to_int)

# ------------------------------------------------------------------ sort specs


class Sort:
    pass


class Int(Sort):
    def __init__(self, conc=None):
        self.conc = conc


class Flt(Sort):
    def __init__(self, finite=False):
        self.finite = finite


class Bool(Sort):
    pass


class Arr(Sort):
    def __init__(self, elem='float', dtype=None, ndim=1, finite=False, cols=None, conc_len=None,
                 conc_shape=None, narrow=False):
        self.elem = elem
        self.dtype = dtype or {'float': 'float64', 'int': 'int64', 'bool': 'bool'}[elem]
        self.ndim = ndim
        self.finite = finite
        self.cols = cols            # concrete number of columns for 2-d arrays
        self.conc_len = conc_len    # concrete length (1-d) -> concrete-shape array of symbolic cells
        self.conc_shape = conc_shape
        # a buffer of the coordinate subtype: cells must be widened (np.float64 / float) before any arithmetic
        self.narrow = narrow


class Tup(Sort):
    def __init__(self, *items):
        self.items = items


class ListOf(Sort):
    def __init__(self, item, n):
        self.item = item
        self.n = n


class GListOf(Sort):
    """python list of symbolic length of ints (arity None) or int tuples"""

    def __init__(self, arity=None):
        self.arity = arity

    def make(self, state, name):
        g = GList.fresh(name, self.arity)
        lst = state.new_list(())
        state.lists[lst.lid] = g
        return lst, [g.n >= 0]


class Rec(Sort):
    def __init__(self, cls, **fields):
        self.cls = cls
        self.fields = fields


class Fn(Sort):
    def __init__(self, name):
        self.name = name


class NoneSort(Sort):
    pass


class Const(Sort):
    """a parameter whose value is fixed by the configuration (python-level polymorphism / flags)"""

    def __init__(self, value):
        self.value = value

    def make(self, state, name):
        v = self.value
        if isinstance(v, bool):
            return SBool(v), []
        if isinstance(v, int):
            return SInt(v), []
        if v is None:
            return NONE, []
        return v, []

    def gen(self, rng, config):
        v = self.value
        if isinstance(v, bool):
            return {'k': 'bool', 'v': v}
        if isinstance(v, int):
            return {'k': 'int', 'v': v}
        return {'k': 'none'}


def make_symbolic(spec, state, name):
    """create a fresh symbolic value of the given sort in `state`; returns (value, [assumptions])"""
    assumptions = []
    if isinstance(spec, Int):
        if spec.conc is not None:
            return SInt(spec.conc), assumptions
        return SInt(z3.Const(fresh_name(name), int_sort())), assumptions
    if isinstance(spec, Flt):
        f = SFloat.fresh(name, finite=spec.finite)
        assumptions.append(f.tag_constraint())
        return f, assumptions
    if isinstance(spec, Bool):
        return SBool(z3.Bool(fresh_name(name))), assumptions
    if isinstance(spec, Arr):
        if spec.conc_len is not None or spec.conc_shape is not None:
            shape = spec.conc_shape or (spec.conc_len,)
            arr = st.new_conc_array(state, spec.elem, spec.dtype, shape, None)
            cells = []
            n = 1
            for s in shape:
                n *= s
            for k in range(n):
                v, a = make_symbolic(_elem_spec(spec), state, f"{name}_{k}")
                if spec.elem == 'int' and spec.dtype in st.UNSIGNED_BITS:
                    bits = st.UNSIGNED_BITS[spec.dtype]
                    if bits < 64:
                        a.append(And(SInt(0) <= v, v < SInt(1 << bits)))
                cells.append(v)
                assumptions += a
            state.heap[arr.base.id] = tuple(cells)
            return arr, assumptions
        shape = []
        for k in range(spec.ndim):
            if k == 1 and spec.cols is not None:
                shape.append(SInt(spec.cols))
            else:
                n = SInt(z3.Const(fresh_name(f"{name}_len{k}"), int_sort()))
                assumptions.append(n >= 0)
                shape.append(n)
        arr = st.new_sym_array(state, spec.elem, spec.dtype, shape, name, finite=spec.finite)
        if spec.narrow:
            arr.base.meta['narrow'] = True
        return arr, assumptions
    if isinstance(spec, Tup):
        vals = []
        for k, it in enumerate(spec.items):
            v, a = make_symbolic(it, state, f"{name}_{k}")
            vals.append(v)
            assumptions += a
        return STuple(vals), assumptions
    if isinstance(spec, ListOf):
        vals = []
        for k in range(spec.n):
            v, a = make_symbolic(spec.item, state, f"{name}_{k}")
            vals.append(v)
            assumptions += a
        return state.new_list(vals), assumptions
    if isinstance(spec, Rec):
        fields = {}
        for fname, fs in spec.fields.items():
            v, a = make_symbolic(fs, state, f"{name}_{fname}")
            fields[fname] = v
            assumptions += a
        return SRecord(spec.cls, fields), assumptions
    if isinstance(spec, Fn):
        return SFunc(spec.name), assumptions
    if isinstance(spec, NoneSort):
        return NONE, assumptions
    if hasattr(spec, 'make'):
        return spec.make(state, name)
    raise Unsupported(f"sort spec {spec}")


def _elem_spec(a):
    if a.elem == 'float':
        return Flt(finite=a.finite)
    if a.elem == 'int':
        return Int()
    return Bool()


# ------------------------------------------------------------------ contract-side views of values

class ArrView:
    """What a contract sees of an array: element reads in a fixed heap, no obligations."""

    def __init__(self, arr, state_like):
        self.arr = arr
        self._s = state_like     # object with .heap and .assume (assume is a no-op sink here)

    @property
    def n(self):
        return self.arr.length()

    def __len__(self):
        n = self.n
        if n.concrete:
            return n.v
        raise TypeError("symbolic length")

    @property
    def shape(self):
        return self.arr.shape()

    def __getitem__(self, idx):
        if isinstance(idx, slice):
            d = self.arr.rng_dims()[0]
            nd = st.slice_dim(d, idx.start, idx.stop, idx.step)
            dims = []
            done = False
            for x in self.arr.dims:
                if x[0] == 'rng' and not done:
                    dims.append(nd)
                    done = True
                else:
                    dims.append(x)
            return ArrView(SArr(self.arr.base, dims), self._s)
        if not isinstance(idx, tuple):
            idx = (idx,)
        if len(idx) < self.arr.ndim:
            items = [('idx', to_int(i)) for i in idx]
            dims, _ = st.apply_index(self.arr, items)
            return ArrView(SArr(self.arr.base, dims), self._s)
        bidx = st.base_index(self.arr, [to_int(i) for i in idx], None)
        return st.read_base(self._s, self.arr.base, bidx, assume_types=False)

    # raw access for spec functions over the base array
    @property
    def A(self):
        c = self._s.heap[self.arr.base.id]
        if self.arr.base.kind != 'sym':
            raise Unsupported("raw array of concrete-shape base")
        return st.content_arrays(self.arr.base, c)[0]

    @property
    def T(self):
        c = self._s.heap[self.arr.base.id]
        t = st.content_arrays(self.arr.base, c)[1]
        if t is None:
            t = z3.K(int_sort(), z3.IntVal(FIN))
        return t

    @property
    def off(self):
        d = self.arr.rng_dims()[0]
        return d[1]

    @property
    def meta(self):
        return self.arr.base.meta

    @property
    def stride(self):
        d = self.arr.rng_dims()[0]
        return d[2]

    def sub(self, lo, n):
        """the sub-view [lo : lo+n] (no clamping; the caller knows it is in range)"""
        d = self.arr.rng_dims()[0]
        dims = []
        done = False
        for x in self.arr.dims:
            if x[0] == 'rng' and not done:
                dims.append(('rng', d[1] + d[2] * to_int(lo), d[2], to_int(n)))
                done = True
            else:
                dims.append(x)
        return ArrView(SArr(self.arr.base, dims), self._s)

    def cells(self):
        """python list of cells for concrete-length views"""
        return [self[i] for i in range(len(self))]


def same_array(r, x):
    """r IS the array x (same buffer, same window) - for functions returning views of existing buffers.
    When the two are different buffers (a concrete replay: the real function's result was copied out), it means
    equal length and equal cells."""
    rv = r if isinstance(r, ArrView) else None
    xv = x if isinstance(x, ArrView) else None
    ra, xa = (r.arr if isinstance(r, ArrView) else r), (x.arr if isinstance(x, ArrView) else x)
    if ra.base is not xa.base:
        if rv is None or xv is None or ra.ndim != 1 or xa.ndim != 1:
            return SBool(False)
        from .values import forall

        def eq(k):
            a, b = rv[k], xv[k]
            return a.same(b) if isinstance(a, SFloat) else (a.iff(b) if isinstance(a, SBool) else a == b)
        n = rv.n
        if n.concrete and xv.n.concrete:
            if n.v != xv.n.v:
                return SBool(False)
            out = SBool(True)
            for k in range(n.v):
                out = out & eq(SInt(k))
            return out
        return And(n == xv.n, forall('int', lambda k: Implies(And(k >= 0, k < n), eq(k))))
    if len(ra.dims) != len(xa.dims):
        return SBool(False)
    out = SBool(True)
    for d, e in zip(ra.dims, xa.dims):
        if d[0] != e[0]:
            return SBool(False)
        for a, b in zip(d[1:], e[1:]):
            out = out & (a == b)
    return out


class _Sink:
    def __init__(self, heap, lists):
        self.heap = heap
        self.lists = lists

    def assume(self, b):
        pass


def wrap(v, sink):
    if isinstance(v, SArr):
        return ArrView(v, sink)
    if isinstance(v, STuple):
        return tuple(wrap(x, sink) for x in v.items)
    if isinstance(v, SList):
        content = sink.lists[v.lid]
        if isinstance(content, GList):
            return GListView(content)
        return [wrap(x, sink) for x in content]
    if isinstance(v, SRecord):
        return RecView(v, sink)
    return v


class GListView:
    """what a contract sees of a python list of symbolic length: .n and item k (an int or a tuple of ints)"""

    def __init__(self, g):
        self.g = g
        self.n = g.n
        self.cols = g.cols      # raw z3 arrays (for spec functions over the whole list)

    def __getitem__(self, k):
        v = self.g.get(k)
        return tuple(v.items) if isinstance(v, STuple) else v


class RecView:
    def __init__(self, rec, sink):
        self._rec = rec
        self._sink = sink

    def __getattr__(self, name):
        try:
            return wrap(self._rec.fields[name], self._sink)
        except KeyError:
            raise AttributeError(name)


class Ctx:
    """Namespace handed to requires/ensures/invariant callables."""

    def __init__(self, vals, heap, lists, **extra):
        object.__setattr__(self, '_vals', vals)
        object.__setattr__(self, '_sink', _Sink(heap, lists))
        object.__setattr__(self, '_extra', extra)

    def __getattr__(self, name):
        extra = object.__getattribute__(self, '_extra')
        if name in extra:
            return extra[name]
        vals = object.__getattribute__(self, '_vals')
        if name in vals:
            return wrap(vals[name], object.__getattribute__(self, '_sink'))
        raise AttributeError(f"contract refers to unknown name {name!r}")

    def has(self, name):
        return name in self._vals or name in self._extra

    def raw(self, name):
        return self._vals[name]

    def view(self, value):
        """view an arbitrary value (e.g. the same SArr) in this context's heap"""
        if isinstance(value, ArrView):
            value = value.arr
        return wrap(value, object.__getattribute__(self, '_sink'))


# ------------------------------------------------------------------ contracts

class Loop:
    def __init__(self, invariant=None, decreases=None, var=None, modifies=None, unroll=False, ghost=None,
                 prange_writes=(), hints=None, keep_using=None, break_hints=None, entry_hints=None):
        self.invariant = invariant      # callable(ctx) -> list[(label, SBool)] | SBool
        self.decreases = decreases      # callable(ctx) -> SInt   (while loops)
        self.var = var                  # loop variable name (sanity check of the binding)
        self.modifies = modifies        # optional override: names of arrays / locals havocked
        self.unroll = unroll
        self.ghost = ghost              # optional dict of ghost hooks
        self.prange_writes = tuple(prange_writes)   # arrays a prange iteration i may write, at [i] only
        self.keep_using = keep_using    # {invariant label: [fact labels]} explicit hypotheses for its inv-keep
        self.entry_hints = entry_hints  # callable(ctx)->clauses: ghost assertions just before the loop (for loops)
        self.break_hints = break_hints  # callable(ctx)->clauses: ghost assertions where the body leaves by `break`
        self.hints = hints              # callable(ctx)->clauses: ghost assertions at the end of the body,
                                        # each proved (from the earlier ones) and then available to inv-keep


class Contract:
    """Contract of one repository function, keyed by 'relative/path.py::qualified.name'."""

    def __init__(self, target, params, returns=None, requires=None, ensures=None, modifies=(),
                 loops=None, int_mode='math', merge=True, configs=None, trusted=False, note='',
                 raises=None, pure=True, inline=False, witnesses=None, props=(), self_rec=None,
                 nothrow=True, cut_asserts=None, path_split=False, lemmas_used=(), flags=(), fuel=1, solver_opts=None, gen=None, stand_in=(), tactic=None, post_hints=None, branches=None, post_using=None, glists=None):
        self.target = target
        self.params = params if callable(params) else list(params)   # [(name, Sort)] or callable(config)->list
        self.returns = returns              # Sort or callable(ctx)->Sort
        self.requires = requires
        self.ensures = ensures
        self.modifies = tuple(modifies)
        self.loops = loops or {}
        self.glists = glists or {}          # {local name: None | arity}: python lists of symbolic length (ints / int tuples)
        self.int_mode = int_mode
        self.merge = merge
        self.configs = configs              # list of dicts (concrete parameter values) or None
        self.trusted = trusted
        self.note = note
        self.raises = raises
        self.inline = inline
        self.witnesses = witnesses or {}
        self.props = tuple(props)
        self.path_split = path_split
        self.lemmas_used = tuple(lemmas_used)
        self.flags = set(flags)
        self.fuel = fuel
        self.solver_opts = solver_opts or {}
        self.tactic = tactic
        self.stand_in = tuple(stand_in)     # 'kind:label' obligations NOT proved: covered only by the runtime-checked
                                            # stand-in (contract evaluated on generated inputs), reported as bounded
        self.branches = branches or {}      # {ordinal of an `if` (source order): {'then': fn(ctx)->ghost steps, 'orelse': ...}}
        self.post_using = post_using        # {ensures label: [fact labels]}: explicit hypothesis selection for that clause
        self.post_hints = post_hints        # callable(ctx, r)->[(label, clause[, using])]: ghost assertions at every return,
                                            # each proved on that path and then available to the postcondition
        self.gen = gen                      # optional input generator for the witness search: gen(rng, config)->typed args

    def param_list(self, config=None):
        if callable(self.params):
            return self.params(_AnyCfg(config or {}))
        return self.params

    @property
    def path(self):
        return self.target.split('::')[0]

    @property
    def qualname(self):
        return self.target.split('::')[1]

    @property
    def simple_name(self):
        return self.qualname.split('.')[-1]


class _AnyCfg(dict):
    """configuration dict that answers 1 for keys it does not have (parameter NAMES do not depend on it)"""

    def __missing__(self, k):
        return 1


def labelled(x, default='clause'):
    """normalise the result of requires/ensures/invariant into [(label, SBool)]"""
    if x is None:
        return []
    if isinstance(x, (SBool, bool, z3.BoolRef)):
        return [(default, to_bool(x))]
    out = []
    for k, item in enumerate(x):
        if isinstance(item, tuple) and len(item) == 2 and isinstance(item[0], str):
            out.append((item[0], to_bool(item[1])))
        else:
            out.append((f"{default}{k}", to_bool(item)))
    return out


class Registry:
    def __init__(self):
        self.by_target = {}
        self.by_name = {}
        self.lemmas = {}
        self.used_lemmas = set()     # lemmas assumed (as instances) in function proofs
        self.builtins = {}

    def add(self, c):
        if c.target in self.by_target and self.by_target[c.target] is not c:
            raise ValueError(f"two contracts for {c.target}")
        self.by_target[c.target] = c
        self.by_name.setdefault(c.simple_name, []).append(c)
        if c.qualname != c.simple_name:
            self.by_name.setdefault(c.qualname, []).append(c)
        return c

    def lookup(self, name, cls=None):
        if cls is not None:
            from . import extract
            for k in extract.mro(cls):
                cands = self.by_name.get(f"{k}.{name}", [])
                if len(cands) == 1:
                    return cands[0]
            return None
        cands = self.by_name.get(name, [])
        if len(cands) > 1:
            # the same function under contract in two integer semantics (bit-vector contract + its math-mode view):
            # a caller sees the one of its own mode
            from .values import Mode
            same = [c for c in cands if c.int_mode == Mode.int_mode]
            if len(same) == 1:
                return same[0]
        if len(cands) == 1:
            return cands[0]
        if len(cands) > 1:
            raise Unsupported(f"ambiguous callee {name}")
        return None

    def add_lemma(self, lem):
        self.lemmas[lem.name] = lem
        return lem


# ------------------------------------------------------------------ spec functions & lemmas

SPECS = {}     # z3 function name -> RecSpec


class RecSpec:
    """A recursive spec function.  It is an *uninterpreted* z3 function plus its definition, which
    the solver front end instantiates (fuel-bounded unfolding, as Dafny does) at every ground
    application occurring in an obligation: f(args) == body(args).  `body(self, *args)` is a python
    callable building the definition from SInt/SFloat/... arguments; result kind in
    {'int','real','bool','float'} ('float' = extended real = two functions)."""

    def __init__(self, name, arg_sorts, result, body, quantified=False):
        self.name = name
        self.quantified = quantified    # add the universally quantified definition instead of ground instances
        self.arg_sorts = arg_sorts      # list of z3 sorts or 'int'
        self.result = result
        zs = [int_sort() if isinstance(s, str) and s == 'int' else s for s in arg_sorts]
        self._zs = zs
        if result == 'float':
            self.f_val = z3.Function(name + '_v', *zs, z3.RealSort())
            self.f_tag = z3.Function(name + '_t', *zs, z3.IntSort())
            SPECS[name + '_v'] = self
            SPECS[name + '_t'] = self
        else:
            rs = {'int': int_sort(), 'real': z3.RealSort(), 'bool': z3.BoolSort()}[result]
            self.f = z3.Function(name, *zs, rs)
            SPECS[name] = self
        self._body = body

    def _wrap_arg(self, s, v):
        if isinstance(s, str) and s == 'int':
            return SInt(v)
        if isinstance(s, z3.SortRef) and s == z3.RealSort():
            return SFloat(FIN, v)
        return v

    def unfold(self, zargs):
        """definitional instance(s) at the given z3 arguments: list of z3 equations"""
        args = [self._wrap_arg(s, v) for s, v in zip(self.arg_sorts, zargs)]
        r = self._body(self, *args)
        if self.result == 'float':
            r = to_float(r)
            return [self.f_val(*zargs) == r.val, self.f_tag(*zargs) == r.ztag()]
        if self.result == 'int':
            return [self.f(*zargs) == to_int(r).z()]
        if self.result == 'real':
            return [self.f(*zargs) == to_float(r).val]
        return [self.f(*zargs) == to_bool(r).z()]

    def axiom(self):
        """forall args. f(args) == body(args)   (used for non-recursive 'quantified' specs)"""
        vs = [z3.Const(fresh_name(self.name + '_q'), s) for s in self._zs]
        eqs = self.unfold(vs)
        if self.result == 'float':
            pats = [self.f_val(*vs), self.f_tag(*vs)]
            return [z3.ForAll(vs, eqs[0], patterns=[pats[0]]), z3.ForAll(vs, eqs[1], patterns=[pats[1]])]
        return [z3.ForAll(vs, eqs[0], patterns=[self.f(*vs)])]

    def __call__(self, *args):
        zargs = []
        for a in args:
            if isinstance(a, (SInt, SBool)):
                zargs.append(a.z())
            elif isinstance(a, SFloat):
                zargs.append(a.val)
            elif isinstance(a, int):
                zargs.append(SInt(a).z())
            else:
                zargs.append(a)
        if self.result == 'float':
            return SFloat(self.f_tag(*zargs), self.f_val(*zargs))
        r = self.f(*zargs)
        if self.result == 'int':
            return SInt(r)
        if self.result == 'real':
            return SFloat(FIN, r)
        return SBool(r)


def spec_unfoldings(terms, fuel=1):
    """definitional instances for every ground application of a spec function in `terms`
    (and, with fuel > 1, in the instances themselves)"""
    seen = set()
    out = []
    frontier = list(terms)
    qdone = set()
    for _ in range(fuel):
        apps = []
        stack = list(frontier)
        visited = set()
        while stack:
            t = stack.pop()
            tid = t.get_id()
            if tid in visited:
                continue
            visited.add(tid)
            if z3.is_quantifier(t):
                stack.append(t.body())
                continue
            if z3.is_app(t):
                d = t.decl()
                if d.kind() == z3.Z3_OP_UNINTERPRETED and d.name() in SPECS and t.num_args() > 0:
                    sp = SPECS[d.name()]
                    if sp.quantified:
                        if sp.name not in qdone:
                            qdone.add(sp.name)
                            ax = sp.axiom()
                            out.extend(ax)
                            stack.extend(ax)
                    else:
                        apps.append(t)
                stack.extend(t.children())
        new = []
        for t in apps:
            spec = SPECS[t.decl().name()]
            zargs = [t.arg(i) for i in range(t.num_args())]
            if any(_has_var(a) for a in zargs):
                continue
            key = (spec.name, tuple(a.get_id() for a in zargs))
            if key in seen:
                continue
            seen.add(key)
            new.extend(spec.unfold(zargs))
        out.extend(new)
        frontier = new
        if not new:
            break
    return out


def _has_var(t):
    stack = [t]
    seen = set()
    while stack:
        x = stack.pop()
        if x.get_id() in seen:
            continue
        seen.add(x.get_id())
        if z3.is_var(x):
            return True
        if z3.is_app(x):
            stack.extend(x.children())
        elif z3.is_quantifier(x):
            return True
    return False


class Lemma:
    """A ghost lemma: forall vars. requires => ensures, proved from `proof` hints.

    vars: [(name, 'int'|'real'|'bool'| z3 sort)]; requires/ensures: callable(ns)->clauses.
    proof(ns, use): optional callable returning extra hypotheses: instances of other lemmas
    (use(lemma, **bindings)) or of itself with a smaller measure (induction hypothesis)."""

    def __init__(self, name, vars, requires=None, ensures=None, proof=None, decreases=None,
                 props=(), note='', cases=None, int_mode='math', fuel=1, sat_check=True, tactic=None, solver_opts=None):
        self.name = name
        self.vars = vars
        self.requires = requires
        self.ensures = ensures
        self.proof = proof
        self.decreases = decreases
        self.props = tuple(props)
        self.note = note
        self.cases = cases
        self.int_mode = int_mode
        self.fuel = fuel
        self.sat_check = sat_check
        self.tactic = tactic
        self.solver_opts = solver_opts or {}

    def make_ns(self, prefix=''):
        ns = {}
        for name, s in self.vars:
            if not isinstance(s, str):
                ns[name] = z3.Const(fresh_name(prefix + name), s)
            elif s == 'int':
                ns[name] = SInt(z3.Const(fresh_name(prefix + name), int_sort()))
            elif s == 'real':
                ns[name] = SFloat(FIN, z3.Real(fresh_name(prefix + name)))
            elif s == 'float':
                ns[name] = SFloat.fresh(prefix + name)
            elif s == 'bool':
                ns[name] = SBool(z3.Bool(fresh_name(prefix + name)))
            else:
                ns[name] = z3.Const(fresh_name(prefix + name), s)
        return ns


class LemmaInstance:
    """a proved lemma at given arguments (requires => ensures): may be assumed in a function proof without
    being proved again; the lemma's own obligations are forced into the same run (Registry.used_lemmas)"""

    def __init__(self, clause, names):
        self.clause = clause
        self.names = tuple(names)



class NS:
    def __init__(self, d):
        self.__dict__.update(d)
