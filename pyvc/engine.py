"""Forward symbolic executor / verification-condition generator (DESIGN 3.4).

One function at a time: parameters are made symbolic per the contract's sorts, `requires` is
assumed, the real AST (from /repo, re-read every run) is executed symbolically with cut points at
loops (invariants) and calls (callee contracts, never bodies), and every check becomes a named
Obligation (hypotheses => goal) to be discharged by the solver pool.
"""
import ast
import itertools

import z3

from . import extract
from . import state as st
from .contracts import (LemmaInstance, Arr, ArrView, Bool, Contract, Ctx, Flt, Int, Loop, RecView, Sort, Tup, ListOf, Rec, labelled,
                        make_symbolic, wrap)
from .values import (FIN, NAN, NINF, NONE, PINF, GList, Mode, SArr, SBool, SFloat, SFunc, SInt, SList, SNone,
                     SRecord, SStr, STuple, Unsupported, And, Implies, Ite, Not, Or, drain_side_constraints,
                     fresh_name, fsqrt, int_sort, merge_values, to_bool, to_float, to_int,
                     values_equal_syntactically)
from . import builtins_np as bnp


class Obligation:
    _ids = itertools.count()

    def __init__(self, func, kind, label, lineno, hyps, goal, config=None, expect='valid', model=None,
                 note=''):
        self.id = next(Obligation._ids)
        self.func = func
        self.kind = kind
        self.label = label
        self.lineno = lineno
        self.hyps = list(hyps)
        self.goal = goal
        self.config = config
        self.expect = expect          # 'valid' | 'sat' | 'refutable'
        self.model = model or {}      # name -> z3 term / ('array', content, len) to evaluate on failure
        self.note = note
        self.props = ()
        self.name = None

    def fullname(self):
        cfg = ''
        if self.config:
            cfg = '[' + ','.join(f"{k}={v}" for k, v in sorted(self.config.items())) + ']'
        q = self.func.split('::')[-1]
        return f"{q}{cfg}#{self.kind}:{self.label}@L{self.lineno}"


class Frame:
    def __init__(self, contract, config, fn, engine):
        self.contract = contract
        self.config = config or {}
        self.fn = fn
        self.loop_ordinals = {}
        k = 0
        for node in ast.walk(fn):
            pass
        # pre-order numbering of loops
        def number(n):
            nonlocal k
            for ch in ast.iter_child_nodes(n):
                if isinstance(ch, (ast.For, ast.While)):
                    self.loop_ordinals[id(ch)] = k
                    k += 1
                number(ch)
        number(fn)
        self.n_loops = k
        # the same numbering for `if` statements (ghost assertions on a branch: Contract.branches)
        self.if_index = {}
        ki = 0

        def number_ifs(n):
            nonlocal ki
            for ch in ast.iter_child_nodes(n):
                if isinstance(ch, ast.If):
                    self.if_index[id(ch)] = ki
                    ki += 1
                number_ifs(ch)
        number_ifs(fn)
        self.used_ifs = set()
        self.entry_vals = None
        self.entry_heap = None
        self.entry_lists = None
        self.path_counter = itertools.count()
        self.used_loops = set()


class Engine:
    MAX_UNROLL = 4096

    def __init__(self, registry):
        self.reg = registry
        self.obligs = []
        self.functions = {}      # target -> info dict (sha, loops, obligations by kind)
        self.notes = []
        self._names = {}

    # ------------------------------------------------------------------ obligations

    def oblige(self, fr, state, kind, label, goal, lineno, expect='valid', note='', using=None):
        goal = to_bool(goal)
        for sc in drain_side_constraints():
            state.pc.append(sc)
        if goal.concrete and goal.v and expect == 'valid':
            info = self.functions[fr.contract.target]
            info['trivial'] = info.get('trivial', 0) + 1
            return
        if f'{kind}:{label}' in fr.contract.stand_in and expect == 'valid':
            info = self.functions[fr.contract.target]
            info.setdefault('stand_in', {})
            info['stand_in'][f'{kind}:{label}'] = info['stand_in'].get(f'{kind}:{label}', 0) + 1
            return
        if using is not None:
            # explicit hypothesis selection (sound: a subset): the quantifier-free facts plus the named ones
            strict = '!strict' in using      # only the named facts (no unnamed quantifier-free path facts either)
            using = [u for u in using if u != '!strict']
            hyps = [] if strict else [h for h in state.pc if not st._has_quantifier(h)]
            for want in using:
                hit = [t for lbl, t in state.facts.items() if lbl == want or lbl.startswith(want)]
                if not hit:
                    if want.endswith(':'):
                        continue        # a whole class of facts (e.g. 'def:'), possibly empty on this path
                    raise Unsupported(f"'using' refers to unknown fact {want!r}")
                hyps.extend(hit)
            hyps += list(getattr(state, 'guards', []))
        else:
            hyps = list(state.pc) + list(getattr(state, 'guards', []))
        ob = Obligation(fr.contract.target, kind, label, lineno, hyps, goal.z(), dict(fr.config), expect,
                        model=self._model_terms(fr), note=note)
        base = ob.fullname()
        n = self._names.get(base, 0)
        self._names[base] = n + 1
        ob.name = base if n == 0 else f"{base}~{n}"
        ob.props = fr.contract.props
        ob.fuel = fr.contract.fuel
        ob.solver_opts = fr.contract.solver_opts
        ob.flags = set(fr.contract.flags)
        ob.tactic = fr.contract.tactic if expect == 'valid' else None
        self.obligs.append(ob)
        info = self.functions[fr.contract.target]
        info['kinds'][kind] = info['kinds'].get(kind, 0) + 1

    def _model_terms(self, fr):
        """terms to evaluate in a counter-model: the function's inputs at entry"""
        out = {}
        if fr.entry_vals is None:
            return out
        for name, v in fr.entry_vals.items():
            out[name] = self._model_spec(v, fr.entry_heap, fr.entry_lists)
        return out

    def _model_spec(self, v, heap, lists):
        if isinstance(v, SInt):
            return ('int', v.z())
        if isinstance(v, SBool):
            return ('bool', v.z())
        if isinstance(v, SFloat):
            return ('float', v.ztag(), v.val)
        if isinstance(v, SArr):
            c = heap[v.base.id]
            dims = [tuple(x.z() if isinstance(x, SInt) else x for x in d) for d in v.dims]
            if v.base.kind == 'conc':
                return ('carr', v.base.elem, v.base.dtype, [self._model_spec(x, heap, lists) for x in c],
                        [s.z() for s in v.base.shape], dims)
            va, ta = st.content_arrays(v.base, c)
            return ('arr', v.base.elem, v.base.dtype, va, ta, [s.z() for s in v.base.shape], dims)
        if isinstance(v, STuple):
            return ('tuple', [self._model_spec(x, heap, lists) for x in v.items])
        if isinstance(v, SList):
            return ('list', [self._model_spec(x, heap, lists) for x in lists[v.lid]])
        if isinstance(v, SRecord):
            return ('record', v.cls, {k: self._model_spec(x, heap, lists) for k, x in v.fields.items()})
        if isinstance(v, SFunc):
            return ('func', v.name)
        return ('other', repr(v))

    # ------------------------------------------------------------------ function verification

    def verify(self, contract, config=None):
        """generate the obligations of one function under one configuration"""
        Mode.int_mode = contract.int_mode
        fn, seg, sha, decos = extract.find_function(contract.target)
        fr = Frame(contract, config, fn, self)
        info = self.functions.setdefault(contract.target, {
            'target': contract.target, 'sha256': sha, 'decorators_dropped': decos, 'loops': fr.n_loops,
            'kinds': {}, 'configs': 0, 'lines': [fn.lineno, fn.end_lineno]})
        info['configs'] += 1
        state = st.State()
        state.guards = []
        params = contract.param_list(fr.config)
        real = extract.param_names(fn)
        names = [p[0] for p in params]
        if names != real:
            raise Unsupported(f"{contract.target}: parameter list changed: contract {names} vs source {real}")
        vals = {}
        for name, spec in params:
            if isinstance(spec, Int) and name in fr.config:
                spec = Int(conc=fr.config[name])
            v, assumptions = make_symbolic(spec, state, name)
            vals[name] = v
            for a in assumptions:
                state.assume(a)
        state.env = dict(vals)
        fr.entry_vals = dict(vals)
        fr.entry_heap = dict(state.heap)
        fr.entry_lists = dict(state.lists)
        entry_ctx = Ctx(vals, fr.entry_heap, fr.entry_lists, config=fr.config)
        fr.entry_ctx = entry_ctx
        req = labelled(contract.requires(entry_ctx) if contract.requires else None, 'requires')
        for label, b in req:
            state.assume_named('req:' + label, b)
        # vacuity guard: requires must be satisfiable
        self.oblige(fr, state, 'req-sat', 'requires-satisfiable', SBool(True), fn.lineno, expect='sat')
        body = extract.body_without_docstring(fn)
        outs = self.exec_block(body, state, fr)
        n_ret = 0
        for kind, s, payload in outs:
            if s.dead:
                continue
            if kind == 'next':
                kind, payload = 'return', NONE
            if kind == 'return':
                n_ret += 1
                rl = s.env.get('__return_line')
                self.check_post(fr, s, payload, rl.v if isinstance(rl, SInt) and rl.concrete else fn.end_lineno)
            elif kind == 'raise':
                self.check_raise(fr, s, payload)
            else:
                raise Unsupported(f"{kind} outside loop")
        # every declared loop spec must have been bound to a loop
        for key in contract.loops:
            if key not in fr.used_loops:
                raise Unsupported(f"{contract.target}: loop spec {key} does not match any loop in the source")
        for key in contract.branches:
            if key not in fr.used_ifs:
                raise Unsupported(f"{contract.target}: branch spec {key} does not match any reachable `if` in the source")
        return fr

    def post_ctx(self, fr, s):
        post = Ctx(fr.entry_vals, s.heap, s.lists, config=fr.config)
        return Ctx(fr.entry_vals, fr.entry_heap, fr.entry_lists, post=post, config=fr.config)

    def check_post(self, fr, s, result, lineno):
        c = fr.contract
        ctx = self.post_ctx(fr, s)
        pathno = next(fr.path_counter)
        r = wrap(result, ctx.post._sink) if result is not None else None
        if c.post_hints is not None:
            for item in c.post_hints(ctx, r):
                using = item[2] if len(item) > 2 else None
                hlabel = item[0]
                if isinstance(item[1], LemmaInstance):
                    # an instance of a lemma proved on its own (its obligations are part of the same run)
                    s.assume_named('lemma:' + hlabel, to_bool(item[1].clause))
                    continue
                hclause = to_bool(item[1])
                self.oblige(fr, s, 'hint', hlabel, hclause, lineno, using=using)
                s.assume_named('hint:' + hlabel, hclause)
        ens = labelled(c.ensures(ctx, r) if c.ensures else None, 'ensures')
        for label, b in ens:
            self.oblige(fr, s, 'post', label, b, lineno, using=(c.post_using or {}).get(label))
        if c.raises:
            for exc, cond in c.raises(fr.entry_ctx):
                self.oblige(fr, s, 'post', f'no-{exc}', Not(cond), lineno)
        # canary: `ensures False` must be refutable on at least one return path (vacuity guard; some paths are
        # legitimately infeasible under a configuration, so the guard is per function, not per path)
        fr.n_canaries = getattr(fr, 'n_canaries', 0) + 1
        if fr.n_canaries <= 6:
            self.oblige(fr, s, 'canary', 'false-is-refutable', SBool(False), lineno, expect='refutable')
        # frame: python lists passed in and not in `modifies` keep their items
        for name, v in fr.entry_vals.items():
            if isinstance(v, SList) and name not in c.modifies:
                before, after = fr.entry_lists.get(v.lid, ()), s.lists.get(v.lid, ())
                if before is not after:
                    same = SBool(len(before) == len(after))
                    if same.v:
                        for x, y in zip(before, after):
                            if x is not y and not values_equal_syntactically(x, y):
                                same = same & _cells_equal(x, y)
                    self.oblige(fr, s, 'frame', f'{name}-list-unchanged', same, lineno)
        # frame: parameter arrays not in `modifies` must be unchanged
        for name, v in fr.entry_vals.items():
            for arr in _arrays_in(v, fr.entry_lists):
                if name in c.modifies:
                    continue
                before = fr.entry_heap[arr.base.id]
                after = s.heap[arr.base.id]
                if before is after or _content_same(before, after):
                    continue
                self.oblige(fr, s, 'frame', f'{name}-unchanged', _content_equal(arr.base, before, after), lineno)

    def check_raise(self, fr, s, payload):
        exc, lineno = payload
        c = fr.contract
        allowed = SBool(False)
        if c.raises:
            for e, cond in c.raises(fr.entry_ctx):
                if e == exc:
                    allowed = allowed | cond
        self.oblige(fr, s, 'raise', f'{exc}-only-when-specified', allowed, lineno)

    # ------------------------------------------------------------------ statements

    def exec_block(self, stmts, state, fr):
        outs = []
        live = [state]
        for stmt in stmts:
            nxt = []
            for s in live:
                if s.dead:
                    continue
                for o in self.exec_stmt(stmt, s, fr):
                    if o[0] == 'next':
                        nxt.append(o[1])
                    else:
                        outs.append(o)
            live = nxt
            if not live:
                break
        outs.extend(('next', s, None) for s in live)
        return outs

    def exec_stmt(self, node, s, fr):
        m = getattr(self, 'stmt_' + type(node).__name__, None)
        if m is None:
            raise Unsupported(f"statement {type(node).__name__} at line {node.lineno}")
        self.cur_line = node.lineno
        try:
            r = m(node, s, fr)
        except RaisesException as e:
            r = [('raise', s, (e.exc, node.lineno))]
        for sc in drain_side_constraints():
            s.pc.append(sc)
        return r

    def stmt_Pass(self, node, s, fr):
        return [('next', s, None)]

    def stmt_ImportFrom(self, node, s, fr):
        # `from . import Line, Polygon, ...` inside a method: the names denote repository classes
        for al in node.names:
            nm = al.asname or al.name
            if al.name in extract.class_table():
                s.env[nm] = bnp.ClassRef(al.name)
            else:
                raise Unsupported(f"import of {al.name}")
        return [('next', s, None)]

    def stmt_Expr(self, node, s, fr):
        if isinstance(node.value, ast.Constant):
            return [('next', s, None)]
        self.eval(node.value, s, fr)
        return [('next', s, None)]

    def stmt_Assign(self, node, s, fr):
        v = self.eval(node.value, s, fr)
        for t in node.targets:
            self.assign(t, v, s, fr)
        return [('next', s, None)]

    def stmt_AnnAssign(self, node, s, fr):
        if node.value is not None:
            self.assign(node.target, self.eval(node.value, s, fr), s, fr)
        return [('next', s, None)]

    def stmt_AugAssign(self, node, s, fr):
        cur = self.eval(_as_load(node.target), s, fr)
        rhs = self.eval(node.value, s, fr)
        if isinstance(cur, SArr):
            # in-place array update: a op= b
            new = bnp.elementwise_binop(self, s, fr, node.op, cur, rhs)
            bnp.copy_into(self, s, fr, cur, new)
            return [('next', s, None)]
        v = self.binop(node.op, cur, rhs, s, fr)
        self.assign(node.target, v, s, fr)
        return [('next', s, None)]

    def stmt_Return(self, node, s, fr):
        v = NONE if node.value is None else self.eval(node.value, s, fr)
        s.env['__return_line'] = SInt(node.lineno)
        return [('return', s, v)]

    def stmt_Raise(self, node, s, fr):
        exc = 'Exception'
        if node.exc is not None:
            e = node.exc
            if isinstance(e, ast.Call):
                e = e.func
            if isinstance(e, ast.Name):
                exc = e.id
        return [('raise', s, (exc, node.lineno))]

    def stmt_Assert(self, node, s, fr):
        c = to_bool(self.eval(node.test, s, fr))
        self.oblige(fr, s, 'assert', 'assert', c, node.lineno)
        s.assume(c)
        return [('next', s, None)]

    def stmt_Break(self, node, s, fr):
        return [('break', s, None)]

    def stmt_Continue(self, node, s, fr):
        return [('continue', s, None)]

    def stmt_If(self, node, s, fr):
        c = to_bool(self.truthy(self.eval(node.test, s, fr), s))
        if c.concrete:
            bh = fr.contract.branches.get(fr.if_index.get(id(node)))
            if bh is not None:
                fr.used_ifs.add(fr.if_index[id(node)])
                fn_ = bh.get('then' if c.v else 'orelse')
                if fn_ is not None:
                    self.ghost_steps(fr, s, fn_(Ctx(dict(s.env), s.heap, s.lists, a=fr.entry_ctx, config=fr.config)), node.lineno)
            return self.exec_block(node.body if c.v else node.orelse, s, fr)
        base_len = len(s.pc)
        s1 = s.clone()
        s1.guards = list(s.guards)
        s1.assume(c)
        s2 = s.clone()
        s2.guards = list(s.guards)
        s2.assume(~c)
        bh = fr.contract.branches.get(fr.if_index.get(id(node)))
        if bh is not None:
            fr.used_ifs.add(fr.if_index[id(node)])
            for st_, fn_ in ((s1, bh.get('then')), (s2, bh.get('orelse'))):
                if fn_ is not None:
                    self.ghost_steps(fr, st_, fn_(Ctx(dict(st_.env), st_.heap, st_.lists, a=fr.entry_ctx, config=fr.config)),
                                     node.lineno)
        o1 = self.exec_block(node.body, s1, fr)
        o2 = self.exec_block(node.orelse, s2, fr)
        o1 = [o for o in o1 if not o[1].dead]
        o2 = [o for o in o2 if not o[1].dead]
        if fr.contract.merge and len(o1) == 1 and len(o2) == 1 and o1[0][0] == 'next' and o2[0][0] == 'next':
            try:
                return [('next', self.merge_states(c, o1[0][1], o2[0][1], s, base_len), None)]
            except Unsupported:
                pass
        return o1 + o2

    def ghost_steps(self, fr, s, items, lineno):
        """ghost assertions: each is proved where it stands (or is an instance of a separately proved lemma) and is
        then available to what follows on that path"""
        for item in items:
            using = item[2] if len(item) > 2 else None
            if isinstance(item[1], LemmaInstance):
                s.assume_named('lemma:' + item[0], to_bool(item[1].clause))
                continue
            hlabel, hclause = item[0], to_bool(item[1])
            self.oblige(fr, s, 'hint', hlabel, hclause, lineno, using=using)
            s.assume_named('hint:' + hlabel, hclause)

    def merge_states(self, c, a, b, parent, base_len):
        m = st.State()
        m.guards = list(parent.guards)
        m.pc = list(a.pc[:base_len])
        ea = a.pc[base_len + 1:]
        eb = b.pc[base_len + 1:]
        cz = c.z()
        if ea:
            m.pc.append(z3.Implies(cz, z3.And(*ea)))
        if eb:
            m.pc.append(z3.Implies(z3.Not(cz), z3.And(*eb)))
        env = {}
        for k in set(a.env) | set(b.env):
            if k in a.env and k in b.env:
                va, vb = a.env[k], b.env[k]
                env[k] = va if va is vb else merge_values(c, va, vb)
            else:
                env[k] = a.env.get(k, b.env.get(k))
        m.env = env
        heap = {}
        for k in set(a.heap) | set(b.heap):
            if k in a.heap and k in b.heap:
                mc = _merge_content(c, a.heap[k], b.heap[k])
                if mc is None:
                    base = self._base_by_id(k, a, b)
                    ra, rb = st.content_reader(base, a.heap[k]), st.content_reader(base, b.heap[k])
                    mc = st.fn_content(lambda idx, ra=ra, rb=rb, c=c: merge_values(c, ra(idx), rb(idx)))
                heap[k] = mc
            else:
                heap[k] = a.heap.get(k, b.heap.get(k))
        m.heap = heap
        lists = {}
        for k in set(a.lists) | set(b.lists):
            if k in a.lists and k in b.lists:
                la, lb = a.lists[k], b.lists[k]
                if la is lb:
                    lists[k] = la
                elif isinstance(la, GList) or isinstance(lb, GList):
                    if not (isinstance(la, GList) and isinstance(lb, GList) and la.arity == lb.arity):
                        raise Unsupported("merge of a growable list with a plain one")
                    cz_ = c.z()
                    lists[k] = GList([x if x.eq(y) else z3.If(cz_, x, y) for x, y in zip(la.cols, lb.cols)],
                                     merge_values(c, la.n, lb.n), la.arity)
                elif len(la) == len(lb):
                    lists[k] = tuple(x if x is y else merge_values(c, x, y) for x, y in zip(la, lb))
                else:
                    raise Unsupported("merge of lists of different length")
            else:
                lists[k] = a.lists.get(k, b.lists.get(k))
        m.lists = lists
        return m

    def _base_by_id(self, bid, *states):
        for stt in states:
            for v in stt.env.values():
                for arr in _arrays_in(v, stt.lists):
                    if arr.base.id == bid:
                        return arr.base
        raise Unsupported("cannot merge functional array contents of an unreachable array")

    # ------------------------------------------------------------------ loops

    def loop_spec(self, node, fr):
        k = fr.loop_ordinals[id(node)]
        spec = fr.contract.loops.get(k)
        if spec is not None:
            fr.used_loops.add(k)
            if spec.var is not None and isinstance(node, ast.For):
                tv = node.target
                tn = tv.id if isinstance(tv, ast.Name) else (tv.elts[0].id if isinstance(tv, ast.Tuple) else None)
                if tn != spec.var:
                    raise Unsupported(f"loop {k}: contract expects loop variable {spec.var!r}, source has {tn!r}")
        return k, spec

    def stmt_For(self, node, s, fr):
        if node.orelse:
            raise Unsupported("for-else")
        k, spec = self.loop_spec(node, fr)
        dom = self.iter_domain(node.iter, s, fr)
        count = dom['count']
        if count.concrete and (spec is None or spec.unroll):
            return self.unroll_for(node, dom, count.v, s, fr)
        if spec is None or spec.invariant is None:
            raise Unsupported(f"loop {k} at line {node.lineno} needs an invariant (symbolic trip count)")
        return self.deductive_for(node, k, spec, dom, s, fr)

    def iter_domain(self, it, s, fr):
        """describe the iteration: count, and bind(k) -> value(s) for target at iteration k"""
        if isinstance(it, ast.Call) and isinstance(it.func, ast.Name) and it.func.id in ('range', 'prange'):
            args = [to_int(self.eval(a, s, fr)) for a in it.args]
            if len(args) == 1:
                a, b, step = SInt(0), args[0], SInt(1)
            elif len(args) == 2:
                a, b, step = args[0], args[1], SInt(1)
            else:
                a, b, step = args
            if not step.concrete or step.v == 0:
                raise Unsupported("symbolic range step")
            if step.v > 0:
                span = b - a
                cnt = span if step.v == 1 else (span + (step.v - 1)) // step.v
            else:
                span = a - b
                cnt = span if step.v == -1 else (span + (-step.v - 1)) // (-step.v)
            if cnt.concrete:
                cnt = SInt(max(cnt.v, 0))
            else:
                cnt = Ite(cnt < 0, SInt(0), cnt)
            return {'kind': 'range', 'count': cnt, 'a': a, 'b': b, 'step': step,
                    'value': lambda k: a + step * k, 'prange': it.func.id == 'prange'}
        if isinstance(it, ast.Call) and isinstance(it.func, ast.Name) and it.func.id == 'enumerate':
            seq = self.eval(it.args[0], s, fr)
            cnt, get = self.seq_access(seq, s, fr)
            return {'kind': 'enumerate', 'count': cnt, 'value': lambda k: STuple([to_int(k), get(k)]), 'seq': seq}
        seq = self.eval(it, s, fr)
        cnt, get = self.seq_access(seq, s, fr)
        return {'kind': 'seq', 'count': cnt, 'value': get, 'seq': seq}

    def seq_access(self, seq, s, fr):
        if isinstance(seq, SArr):
            return seq.length(), lambda k: self.index_value(seq, to_int(k), s, fr)
        if isinstance(seq, SList):
            items = s.lists[seq.lid]
            if isinstance(items, GList):
                return items.n, lambda k, g=items: g.get(to_int(k))
            return SInt(len(items)), lambda k: s.lists[seq.lid][int(to_int(k))]
        if isinstance(seq, STuple):
            return SInt(len(seq)), lambda k: seq.items[int(to_int(k))]
        raise Unsupported(f"iteration over {type(seq).__name__}")

    def unroll_for(self, node, dom, count, s, fr):
        if count > self.MAX_UNROLL:
            raise Unsupported(f"unrolling {count} iterations")
        live = [s]
        outs = []
        for k in range(count):
            nxt = []
            for cur in live:
                if cur.dead:
                    continue
                self.assign(node.target, dom['value'](SInt(k)), cur, fr)
                for o in self.exec_block(node.body, cur, fr):
                    if o[0] in ('next', 'continue'):
                        nxt.append(o[1])
                    elif o[0] == 'break':
                        outs.append(('next', o[1], None))
                    else:
                        outs.append(o)
            live = nxt
            if not live:
                break
        outs.extend(('next', x, None) for x in live)
        return outs

    def collect_modified(self, body, s, fr):
        """syntactic over-approximation of locals assigned and array bases / lists written in a loop body"""
        names, bases, lids = set(), {}, set()

        def note_target(t):
            if isinstance(t, ast.Name):
                names.add(t.id)
            elif isinstance(t, (ast.Tuple, ast.List)):
                for e in t.elts:
                    note_target(e)
            elif isinstance(t, ast.Subscript):
                root = t.value
                while isinstance(root, ast.Subscript):
                    root = root.value
                if isinstance(root, ast.Name) and root.id in s.env:
                    self._note_written(s.env[root.id], bases, lids, s)
                elif isinstance(root, ast.Name):
                    names.add(root.id)
                elif isinstance(root, ast.Attribute):
                    try:
                        self._note_written(self.eval(root, s.clone_guarded(), fr), bases, lids, s)
                    except Exception:
                        raise Unsupported("store through attribute in loop")
            elif isinstance(t, ast.Attribute):
                raise Unsupported("attribute store in loop")

        for st_node in body:
            for n in ast.walk(st_node):
                if isinstance(n, ast.Assign):
                    for t in n.targets:
                        note_target(t)
                elif isinstance(n, (ast.AugAssign, ast.AnnAssign)):
                    note_target(n.target)
                    if isinstance(n, ast.AugAssign) and isinstance(n.target, ast.Name) and n.target.id in s.env:
                        if isinstance(s.env[n.target.id], SArr):
                            self._note_written(s.env[n.target.id], bases, lids, s)
                elif isinstance(n, ast.For):
                    note_target(n.target)
                elif isinstance(n, ast.Call):
                    self._note_call_effects(n, s, fr, names, bases, lids)
        return names, bases, lids

    def _note_written(self, v, bases, lids, s):
        if isinstance(v, SArr):
            bases[v.base.id] = v.base
        elif isinstance(v, SList):
            lids.add(v.lid)

    def _note_call_effects(self, n, s, fr, names, bases, lids):
        f = n.func
        if isinstance(f, ast.Attribute) and f.attr in ('fill', 'append', 'pop', 'extend', 'sort'):
            if isinstance(f.value, ast.Name) and f.value.id in s.env:
                self._note_written(s.env[f.value.id], bases, lids, s)
            return
        callee = None
        if isinstance(f, ast.Name):
            callee = self.reg.lookup(f.id) if f.id not in s.env else None
        elif isinstance(f, ast.Attribute):
            try:
                callee = self.reg.lookup(f.attr)
            except Unsupported:
                callee = None
        if callee is not None and callee.modifies:
            params = callee.param_list(fr.config)
            pnames = [p[0] for p in params]
            args = list(n.args)
            if isinstance(f, ast.Attribute) and pnames and pnames[0] == 'self':
                pnames = pnames[1:]
            for pn, a in zip(pnames, args):
                if pn in callee.modifies:
                    if isinstance(a, ast.Name) and a.id in s.env:
                        self._note_written(s.env[a.id], bases, lids, s)
                    elif isinstance(a, ast.Name):
                        # a local that does not exist at the loop head: created inside the body
                        names.add(a.id)
                    else:
                        try:
                            tmp = s.clone()
                            tmp.guards = list(s.guards)
                            self._note_written(self.eval(a, tmp, fr), bases, lids, s)
                        except Exception:
                            raise Unsupported("cannot determine array modified by call in loop")

    def name_functional_arrays(self, s, also=None):
        seen = set()
        vals = list(s.env.values()) + (list(also.values()) if also else [])
        for v in vals:
            for arr in _arrays_in(v, s.lists):
                if arr.base.id not in seen and arr.base.kind == 'sym':
                    seen.add(arr.base.id)
                    st.name_content(s, arr.base)

    def havoc_for_loop(self, node_body, extra_names, s, fr, spec):
        self.name_functional_arrays(s)
        names, bases, lids = self.collect_modified(node_body, s, fr)
        names |= set(extra_names)
        for nme in sorted(names):
            if nme in s.env:
                s.env[nme] = self.havoc_value(s.env[nme], s, nme)
        for b in bases.values():
            st.havoc_base(s, b)
        for lid in lids:
            if isinstance(s.lists[lid], GList):
                g = GList.fresh('gl', s.lists[lid].arity)
                s.assume(g.n >= 0)
                s.lists[lid] = g
                continue
            s.lists[lid] = tuple(self.havoc_value(x, s, 'l') for x in s.lists[lid])
        return names, bases

    def havoc_value(self, v, s, name):
        if isinstance(v, SInt):
            return SInt.fresh(name)
        if isinstance(v, SBool):
            return SBool(z3.Bool(fresh_name(name)))
        if isinstance(v, SFloat):
            f = SFloat.fresh(name)
            s.assume(f.tag_constraint())
            return f
        if isinstance(v, STuple):
            return STuple(self.havoc_value(x, s, name) for x in v.items)
        if isinstance(v, SArr):
            # a local rebound to different views in the loop: havoc view geometry
            dims = []
            for d in v.dims:
                if d[0] == 'fix':
                    dims.append(('fix', SInt.fresh(name + '_ix')))
                else:
                    n = SInt.fresh(name + '_n')
                    s.assume(n >= 0)
                    dims.append(('rng', SInt.fresh(name + '_off'), d[2], n))
            return SArr(v.base, dims)
        if isinstance(v, (SNone, SStr, SFunc, SRecord, SList)):
            return v
        raise Unsupported(f"havoc of {type(v).__name__}")

    def loop_ctx(self, fr, s, entry_state, extra, iter0=None):
        vals = dict(s.env)
        vals.update(extra)
        old = Ctx(dict(entry_state.env), entry_state.heap, entry_state.lists, config=fr.config)
        kw = {}
        if iter0 is not None:
            kw['iter0'] = Ctx(dict(iter0.env), iter0.heap, iter0.lists, config=fr.config)
        return Ctx(vals, s.heap, s.lists, a=fr.entry_ctx, old=old, config=fr.config, **kw)

    def check_inv(self, fr, s, spec, entry_state, extra, kind, lineno):
        ctx = self.loop_ctx(fr, s, entry_state, extra)
        for label, b in labelled(spec.invariant(ctx), 'inv'):
            using = (spec.keep_using or {}).get(label) if kind == 'inv-keep' else None
            self.oblige(fr, s, kind, label, b, lineno, using=using)

    def assume_inv(self, fr, s, spec, entry_state, extra):
        ctx = self.loop_ctx(fr, s, entry_state, extra)
        for label, b in labelled(spec.invariant(ctx), 'inv'):
            s.assume_named('inv:' + label, b)

    def deductive_for(self, node, k, spec, dom, s, fr):
        if dom['kind'] == 'range':
            a, b, step = dom['a'], dom['b'], dom['step']
            if step.v <= 0:
                raise Unsupported("deductive loop over descending range")
        else:
            a, b, step = SInt(0), dom['count'], SInt(1)
        tname = _target_index_name(node.target, dom)
        self.name_functional_arrays(s)
        entry = s.clone()
        entry.guards = list(s.guards)
        if getattr(spec, 'entry_hints', None) is not None:
            self.ghost_steps(fr, s, spec.entry_hints(self.loop_ctx(fr, s, entry, {tname: a})), node.lineno)
        # 1. invariant holds on entry (index = a)
        self.check_inv(fr, s, spec, entry, {tname: a}, 'inv-init', node.lineno)
        # 2. arbitrary iteration
        h = s.clone()
        h.guards = list(s.guards)
        tnames = _target_names(node.target)
        self.havoc_for_loop(node.body, tnames, h, fr, spec)
        i = SInt.fresh(tname)
        h.assume(i >= a)
        if step.v > 1:
            h.assume(((i - a) % step.v) == 0)
        body_s = h.clone()
        body_s.guards = list(h.guards)
        self.assume_inv(fr, body_s, spec, entry, {tname: i})
        body_s.assume(i < b)
        # vacuity: invariant and guard are jointly satisfiable
        self.oblige(fr, body_s, 'req-sat', f'loop{k}-body-reachable', SBool(True), node.lineno, expect='sat')
        self.bind_target(node.target, dom, i, body_s, fr)
        head_heap = dict(body_s.heap)
        iter0 = body_s.clone()
        is_prange = dom.get('prange', False)
        if is_prange:
            self.prange_syntactic_check(node, spec, body_s, fr)
        outs = []
        for o in self.exec_block(node.body, body_s, fr):
            if o[1].dead:
                continue
            if is_prange:
                if o[0] not in ('next', 'continue'):
                    raise Unsupported("break/return inside prange")
                self.prange_frame(node, spec, head_heap, o[1], i, fr)
            if o[0] in ('next', 'continue'):
                self.name_functional_arrays(o[1], also=fr.entry_vals)
                if spec.hints is not None:
                    hctx = self.loop_ctx(fr, o[1], entry, {tname: i}, iter0=iter0)
                    for item in spec.hints(hctx):
                        using = item[2] if len(item) > 2 else None
                        if isinstance(item[1], LemmaInstance):
                            o[1].assume_named('lemma:' + item[0], to_bool(item[1].clause))
                            continue
                        hlabel, hclause = item[0], to_bool(item[1])
                        self.oblige(fr, o[1], 'hint', hlabel, hclause, node.lineno, using=using)
                        o[1].assume_named('hint:' + hlabel, hclause)
                self.check_inv(fr, o[1], spec, entry, {tname: i + step}, 'inv-keep', node.lineno)
            elif o[0] == 'break':
                if spec.break_hints is not None:
                    hctx = self.loop_ctx(fr, o[1], entry, {tname: i}, iter0=iter0)
                    for item in spec.break_hints(hctx):
                        using = item[2] if len(item) > 2 else None
                        if isinstance(item[1], LemmaInstance):
                            o[1].assume_named('lemma:' + item[0], to_bool(item[1].clause))
                            continue
                        hlabel, hclause = item[0], to_bool(item[1])
                        self.oblige(fr, o[1], 'hint', hlabel, hclause, node.lineno, using=using)
                        o[1].assume_named('hint:' + hlabel, hclause)
                outs.append(('next', o[1], None))
            else:
                outs.append(o)
        # 3. exit
        ex = h.clone()
        ex.guards = list(h.guards)
        ie = SInt.fresh(tname + '_exit')
        exit_facts = And(ie >= a, ie >= b, Or(ie == a, ie - step < b))
        if step.v > 1:
            exit_facts = And(exit_facts, ((ie - a) % step.v) == 0)
        ex.assume_named(f'exit:loop{k}', exit_facts)
        self.assume_inv(fr, ex, spec, entry, {tname: ie})
        # loop variable after the loop: last value taken (if any iteration ran)
        if dom['kind'] == 'range' and isinstance(node.target, ast.Name):
            ex.env[node.target.id] = ie - step
        ex.env['__exit_' + tname] = ie
        outs.append(('next', ex, None))
        return outs

    def prange_syntactic_check(self, node, spec, s, fr):
        """a prange body may read the arrays it writes only at [loop variable]; scalars assigned in the
        body are iteration-private in numba (no reductions in the verified kernels)"""
        if not isinstance(node.target, ast.Name):
            raise Unsupported("prange with non-name target")
        lv = node.target.id
        for n in ast.walk(ast.Module(body=node.body, type_ignores=[])):
            if isinstance(n, ast.Subscript) and isinstance(n.value, ast.Name) and n.value.id in spec.prange_writes:
                if not (isinstance(n.slice, ast.Name) and n.slice.id == lv):
                    raise Unsupported(f"prange body accesses {n.value.id} at an index other than the loop variable")
            if isinstance(n, ast.AugAssign) and isinstance(n.target, ast.Name):
                raise Unsupported("scalar reduction inside prange")

    def prange_frame(self, node, spec, head_heap, s, i, fr):
        """iteration i changed nothing but cell [i] of the declared arrays (so iterations are independent
        and sequential semantics is sound for the parallel loop)"""
        allowed = {}
        for nm in spec.prange_writes:
            v = fr.entry_vals.get(nm, s.env.get(nm))
            if not isinstance(v, SArr) or v.ndim != 1 or len(v.dims) != 1:
                raise Unsupported("prange write target must be a 1-d array")
            allowed[v.base.id] = v
        for bid, after in s.heap.items():
            before = head_heap.get(bid)
            if before is None or before is after or _content_same(before, after):
                continue
            if bid not in allowed:
                self.oblige(fr, s, 'prange-frame', 'writes-only-declared-arrays', SBool(False), node.lineno)
                continue
            v = allowed[bid]
            _, off, stride, n = v.dims[0]
            ra, rb = st.content_reader(v.base, after), st.content_reader(v.base, before)
            own = off + stride * i

            def unchanged(j, ra=ra, rb=rb, own=own):
                a, b = ra([j]), rb([j])
                eq = a.same(b) if isinstance(a, SFloat) else (a.iff(b) if isinstance(a, SBool) else a == b)
                return Implies(j != own, eq)
            from .values import forall
            self.oblige(fr, s, 'prange-frame', 'iteration-writes-only-own-cell', forall('int', unchanged), node.lineno)

    def bind_target(self, target, dom, i, s, fr):
        if dom['kind'] == 'range':
            self.assign(target, i, s, fr)
        else:
            self.assign(target, dom['value'](i), s, fr)

    def stmt_While(self, node, s, fr):
        if node.orelse:
            raise Unsupported("while-else")
        k, spec = self.loop_spec(node, fr)
        if spec is None or spec.unroll:
            # concrete iteration: the condition must fold to a constant each time
            live = [s]
            outs = []
            for _ in range(self.MAX_UNROLL):
                nxt = []
                for cur in live:
                    c = to_bool(self.truthy(self.eval(node.test, cur, fr), cur))
                    if not c.concrete:
                        raise Unsupported(f"while loop {k} at line {node.lineno} needs an invariant")
                    if not c.v:
                        outs.append(('next', cur, None))
                        continue
                    for o in self.exec_block(node.body, cur, fr):
                        if o[0] in ('next', 'continue'):
                            nxt.append(o[1])
                        elif o[0] == 'break':
                            outs.append(('next', o[1], None))
                        else:
                            outs.append(o)
                live = nxt
                if not live:
                    return outs
            raise Unsupported("while loop unrolling bound exceeded")
        self.name_functional_arrays(s)
        entry = s.clone()
        entry.guards = list(s.guards)
        self.check_inv(fr, s, spec, entry, {}, 'inv-init', node.lineno)
        h = s.clone()
        h.guards = list(s.guards)
        self.havoc_for_loop(node.body, [], h, fr, spec)
        body_s = h.clone()
        body_s.guards = list(h.guards)
        self.assume_inv(fr, body_s, spec, entry, {})
        c = to_bool(self.truthy(self.eval(node.test, body_s, fr), body_s))
        ex = body_s.clone()
        ex.guards = list(body_s.guards)
        body_s.assume(c)
        self.oblige(fr, body_s, 'req-sat', f'loop{k}-body-reachable', SBool(True), node.lineno, expect='sat')
        m0 = None
        if spec.decreases is not None:
            m0 = to_int(spec.decreases(self.loop_ctx(fr, body_s, entry, {})))
            self.oblige(fr, body_s, 'decr', f'loop{k}-measure-nonneg', m0 >= 0, node.lineno)
        outs = []
        head = body_s.clone()
        for o in self.exec_block(node.body, body_s, fr):
            if o[1].dead:
                continue
            if o[0] in ('next', 'continue'):
                if spec.hints is not None:
                    # ghost steps at the end of the body; `head` = the state at the head of this iteration
                    hctx = self.loop_ctx(fr, o[1], entry, {}, iter0=head)
                    self.ghost_steps(fr, o[1], spec.hints(hctx), node.lineno)
                self.check_inv(fr, o[1], spec, entry, {}, 'inv-keep', node.lineno)
                if m0 is not None:
                    m1 = to_int(spec.decreases(self.loop_ctx(fr, o[1], entry, {})))
                    self.oblige(fr, o[1], 'decr', f'loop{k}-measure-decreases', m1 < m0, node.lineno)
            elif o[0] == 'break':
                outs.append(('next', o[1], None))
            else:
                outs.append(o)
        if not (c.concrete and c.v):
            ex.assume(~c)
            outs.append(('next', ex, None))
        return outs

    # ------------------------------------------------------------------ assignment

    def assign(self, target, v, s, fr):
        if isinstance(target, ast.Name):
            gl = fr.contract.glists
            if target.id in gl and isinstance(v, SList) and not isinstance(s.lists[v.lid], GList):
                # declared a list of symbolic length: a fresh list object with the same items
                v2 = s.new_list(())
                s.lists[v2.lid] = GList.from_items(s.lists[v.lid], gl[target.id])
                v = v2
            s.env[target.id] = v
            return
        if isinstance(target, (ast.Tuple, ast.List)):
            items = self.unpack(v, len(target.elts), s)
            for t, x in zip(target.elts, items):
                self.assign(t, x, s, fr)
            return
        if isinstance(target, ast.Subscript):
            obj = self.eval(target.value, s, fr)
            self.store_subscript(obj, target.slice, v, s, fr, target.lineno)
            return
        if isinstance(target, ast.Attribute):
            obj = self.eval(target.value, s, fr)
            if isinstance(obj, SRecord):
                obj.fields[target.attr] = v
                return
        raise Unsupported(f"assignment target {type(target).__name__}")

    def unpack(self, v, n, s):
        if isinstance(v, STuple):
            items = list(v.items)
        elif isinstance(v, SList):
            items = list(s.lists[v.lid])
        elif isinstance(v, SArr) and v.length().concrete:
            items = [self.index_value(v, SInt(k), s, None) for k in range(v.length().v)]
        else:
            raise Unsupported(f"unpacking {type(v).__name__}")
        if len(items) != n:
            raise Unsupported("unpack arity mismatch")
        return items

    def store_subscript(self, obj, sl, v, s, fr, lineno):
        if isinstance(obj, SList):
            i = to_int(self.eval(sl, s, fr))
            items = list(s.lists[obj.lid])
            if i.concrete:
                idx = i.v
                if not (-len(items) <= idx < len(items)):
                    self.oblige(fr, s, 'store', 'list-index', SBool(False), lineno)
                    return
                items[idx] = v
            else:
                self.oblige(fr, s, 'store', 'list-index', And(i >= 0, i < len(items)), lineno)
                for k in range(len(items)):
                    items[k] = merge_values(i == k, v, items[k])
            s.lists[obj.lid] = tuple(items)
            return
        if isinstance(obj, STuple):
            raise RaisesException('TypeError')
        if not isinstance(obj, SArr):
            raise Unsupported(f"subscript store into {type(obj).__name__}")
        items = self.index_items(sl, s, fr)
        if any(it[0] in ('mask', 'fancy') for it in items):
            bnp.store_fancy(self, s, fr, obj, items, v, lineno)
            return
        dims, checks = st.apply_index(obj, items, s.knows)
        for (i, n) in checks:
            self.oblige(fr, s, 'store', 'index-in-bounds', And(SInt(0) <= i, i < n), lineno)
        tgt = SArr(obj.base, dims)
        if tgt.ndim == 0:
            bidx = [d[1] for d in dims]
            val = st.coerce_elem(obj.base, v, lambda kind, c: self.oblige(fr, s, kind, 'value-fits-dtype', c, lineno))
            st.write_base(s, obj.base, bidx, val)
            return
        bnp.copy_into(self, s, fr, tgt, v, lineno)

    # ------------------------------------------------------------------ expressions

    def truthy(self, v, s):
        if isinstance(v, SArr) and v.base.meta.get('buffer'):
            return v.length() > 0          # a pyarrow Buffer is truthy iff it is non-empty
        if isinstance(v, SRecord):
            return SBool(True)
        if isinstance(v, SList):
            if isinstance(s.lists[v.lid], GList):
                return s.lists[v.lid].n > 0
            return SBool(len(s.lists[v.lid]) > 0)
        if isinstance(v, STuple):
            return SBool(len(v) > 0)
        if isinstance(v, SNone):
            return SBool(False)
        return to_bool(v)

    def eval(self, node, s, fr):
        m = getattr(self, 'expr_' + type(node).__name__, None)
        if m is None:
            raise Unsupported(f"expression {type(node).__name__} at line {getattr(node, 'lineno', '?')}")
        return m(node, s, fr)

    def expr_Constant(self, node, s, fr):
        v = node.value
        if isinstance(v, bool):
            return SBool(v)
        if isinstance(v, int):
            return SInt(v)
        if isinstance(v, float):
            return SFloat.const(v)
        if v is None:
            return NONE
        if isinstance(v, str):
            return SStr(v)
        raise Unsupported(f"constant {v!r}")

    def expr_Name(self, node, s, fr):
        if node.id in s.env:
            return s.env[node.id]
        if node.id in ('np', 'numpy', 'math', 'pa', 'pd', 'dd', 'dask'):
            return bnp.Module(node.id)
        c = self.reg.lookup(node.id)
        if c is not None:
            return SFunc(node.id)
        if node.id in bnp.GLOBAL_NAMES:
            return bnp.GLOBAL_NAMES[node.id]
        if node.id in extract.class_table():
            return bnp.ClassRef(node.id)
        raise Unsupported(f"unknown name {node.id!r} at line {node.lineno}")

    def expr_Tuple(self, node, s, fr):
        out = []
        for e in node.elts:
            if isinstance(e, ast.Starred):
                v = self.eval(e.value, s, fr)
                out.extend(v.items if isinstance(v, STuple) else s.lists[v.lid])
            else:
                out.append(self.eval(e, s, fr))
        return STuple(out)

    def expr_GeneratorExp(self, node, s, fr):
        lc = ast.ListComp(elt=node.elt, generators=node.generators)
        ast.copy_location(lc, node)
        return self.expr_ListComp(lc, s, fr)

    def expr_List(self, node, s, fr):
        return s.new_list([self.eval(e, s, fr) for e in node.elts])

    def expr_ListComp(self, node, s, fr):
        if len(node.generators) != 1 or node.generators[0].ifs:
            raise Unsupported("complex list comprehension")
        g = node.generators[0]
        dom = self.iter_domain(g.iter, s, fr)
        if not dom['count'].concrete:
            raise Unsupported("list comprehension over symbolic range")
        saved = {n: s.env.get(n) for n in _target_names(g.target)}
        out = []
        for k in range(dom['count'].v):
            self.assign(g.target, dom['value'](SInt(k)), s, fr)
            out.append(self.eval(node.elt, s, fr))
        for n, v in saved.items():
            if v is None:
                s.env.pop(n, None)
            else:
                s.env[n] = v
        return s.new_list(out)

    def expr_UnaryOp(self, node, s, fr):
        v = self.eval(node.operand, s, fr)
        if isinstance(node.op, ast.Not):
            return ~to_bool(self.truthy(v, s))
        if isinstance(node.op, ast.USub):
            if isinstance(v, (SInt, SFloat)):
                return -v
        if isinstance(node.op, ast.UAdd):
            return v
        if isinstance(node.op, ast.Invert):
            if isinstance(v, SArr):
                return bnp.elementwise_unop(self, s, fr, 'invert', v)
            if isinstance(v, SBool):
                return ~v
            return ~to_int(v)
        raise Unsupported(f"unary {type(node.op).__name__} on {type(v).__name__}")

    def expr_BoolOp(self, node, s, fr):
        is_and = isinstance(node.op, ast.And)
        acc = None
        pushed = 0
        try:
            for e in node.values:
                v = self.eval(e, s, fr)
                b = to_bool(self.truthy(v, s))
                acc = b if acc is None else (acc & b if is_and else acc | b)
                if acc.concrete and acc.v != is_and:
                    break   # short-circuit decided
                g = b if is_and else ~b
                if not g.concrete:
                    s.guards.append(g.z())
                    pushed += 1
        finally:
            for _ in range(pushed):
                s.guards.pop()
        return acc

    def expr_IfExp(self, node, s, fr):
        c = to_bool(self.truthy(self.eval(node.test, s, fr), s))
        if c.concrete:
            return self.eval(node.body if c.v else node.orelse, s, fr)
        s.guards.append(c.z())
        try:
            a = self.eval(node.body, s, fr)
        finally:
            s.guards.pop()
        s.guards.append(z3.Not(c.z()))
        try:
            b = self.eval(node.orelse, s, fr)
        finally:
            s.guards.pop()
        return merge_values(c, a, b)

    def expr_Compare(self, node, s, fr):
        left = self.eval(node.left, s, fr)
        acc = SBool(True)
        for op, rn in zip(node.ops, node.comparators):
            right = self.eval(rn, s, fr)
            r = self.compare(op, left, right, s, fr)
            if isinstance(r, SArr):
                if len(node.ops) != 1:
                    raise Unsupported("chained comparison of arrays")
                return r
            acc = acc & r
            left = right
        return acc

    def compare(self, op, a, b, s, fr):
        if (isinstance(a, SArr) or isinstance(b, SArr)) and not isinstance(op, (ast.Is, ast.IsNot)):
            return bnp.elementwise_compare(self, s, fr, op, a, b)
        if isinstance(op, (ast.Is, ast.IsNot)):
            if isinstance(a, SStr) and a.s.startswith('type:'):
                same = a.s[5:] == bnp.class_name(b)
                return SBool(same if isinstance(op, ast.Is) else not same)
            same = isinstance(a, SNone) and isinstance(b, SNone)
            if not (isinstance(a, SNone) or isinstance(b, SNone)):
                raise Unsupported("'is' on non-None")
            return SBool(same if isinstance(op, ast.Is) else not same)
        if isinstance(a, SBool) and isinstance(b, SBool):
            if isinstance(op, ast.Eq):
                return a.iff(b)
            if isinstance(op, ast.NotEq):
                return ~a.iff(b)
        if isinstance(a, SStr) and isinstance(b, SStr):
            if isinstance(op, ast.Eq):
                return SBool(a.s == b.s)
            if isinstance(op, ast.NotEq):
                return SBool(a.s != b.s)
        if isinstance(a, SNone) or isinstance(b, SNone):
            if isinstance(op, ast.Eq):
                return SBool(isinstance(a, SNone) and isinstance(b, SNone))
            if isinstance(op, ast.NotEq):
                return SBool(not (isinstance(a, SNone) and isinstance(b, SNone)))
        if isinstance(a, SBool):
            a = to_int(a)
        if isinstance(b, SBool):
            b = to_int(b)
        if isinstance(a, SFloat) or isinstance(b, SFloat):
            a, b = to_float(a), to_float(b)
        if not isinstance(a, (SInt, SFloat)) or not isinstance(b, (SInt, SFloat)):
            raise Unsupported(f"comparison of {type(a).__name__} and {type(b).__name__}")
        t = type(op)
        if t is ast.Lt:
            return a < b
        if t is ast.LtE:
            return a <= b
        if t is ast.Gt:
            return a > b
        if t is ast.GtE:
            return a >= b
        if t is ast.Eq:
            return a == b
        if t is ast.NotEq:
            return a != b
        raise Unsupported(f"comparison {t.__name__}")

    def expr_BinOp(self, node, s, fr):
        a = self.eval(node.left, s, fr)
        b = self.eval(node.right, s, fr)
        return self.binop(node.op, a, b, s, fr, getattr(node, 'lineno', 0))

    def binop(self, op, a, b, s, fr, lineno=0):
        if isinstance(a, SArr) or isinstance(b, SArr):
            return bnp.elementwise_binop(self, s, fr, op, a, b)
        t = type(op)
        if isinstance(a, SList) and isinstance(b, SList) and t is ast.Add:
            return s.new_list(s.lists[a.lid] + s.lists[b.lid])
        if isinstance(a, SList) and isinstance(b, SInt) and t is ast.Mult and b.concrete:
            return s.new_list(s.lists[a.lid] * b.v)
        if isinstance(a, STuple) and isinstance(b, STuple) and t is ast.Add:
            return a + b
        if isinstance(a, STuple) and isinstance(b, SInt) and t is ast.Mult and b.concrete:
            return STuple(a.items * b.v)
        if isinstance(a, SBool) and isinstance(b, SBool):
            if t is ast.BitAnd:
                return a & b
            if t is ast.BitOr:
                return a | b
            if t is ast.BitXor:
                return a ^ b
        if isinstance(a, SBool):
            a = to_int(a)
        if isinstance(b, SBool):
            b = to_int(b)
        if not isinstance(a, (SInt, SFloat)) or not isinstance(b, (SInt, SFloat)):
            raise Unsupported(f"binary {t.__name__} on {type(a).__name__}, {type(b).__name__}")
        fl = isinstance(a, SFloat) or isinstance(b, SFloat)
        if t is ast.Add:
            return (to_float(a) + to_float(b)) if fl else a + b
        if t is ast.Sub:
            return (to_float(a) - to_float(b)) if fl else a - b
        if t is ast.Mult:
            return (to_float(a) * to_float(b)) if fl else a * b
        if t is ast.Div:
            fb = to_float(b)
            self.oblige(fr, s, 'safety', 'division-by-zero', fb != SFloat.const(0.0), lineno)
            return to_float(a) / fb
        if t is ast.Pow:
            if fl:
                return to_float(a) ** b
            if isinstance(a, SInt) and isinstance(b, SInt):
                if a.concrete and b.concrete and b.v >= 0:
                    return SInt(a.v ** b.v)
                if a.concrete and a.v == 2:
                    from .values import pow2
                    return pow2(b)
                if b.concrete and b.v == 2:
                    return a * a
            raise Unsupported("integer power")
        if fl:
            raise Unsupported(f"float {t.__name__}")
        if t is ast.FloorDiv:
            self.oblige(fr, s, 'safety', 'division-by-zero', b != 0, lineno)
            return a // b
        if t is ast.Mod:
            self.oblige(fr, s, 'safety', 'division-by-zero', b != 0, lineno)
            return a % b
        if t is ast.LShift:
            return a << b
        if t is ast.RShift:
            return a >> b
        if t is ast.BitAnd:
            return a & b
        if t is ast.BitOr:
            return a | b
        if t is ast.BitXor:
            return a ^ b
        raise Unsupported(f"binary {t.__name__}")

    # -- subscripts

    def index_items(self, sl, s, fr):
        """translate a subscript slice expression into items: ('idx',i) | ('slice',lo,hi,step) |
        ('mask', arr) | ('fancy', arr)"""
        elts = sl.elts if isinstance(sl, ast.Tuple) else [sl]
        items = []
        for e in elts:
            if isinstance(e, ast.Slice):
                lo = None if e.lower is None else self._opt_int(self.eval(e.lower, s, fr))
                hi = None if e.upper is None else self._opt_int(self.eval(e.upper, s, fr))
                stp = None if e.step is None else self._opt_int(self.eval(e.step, s, fr))
                items.append(('slice', lo, hi, stp))
            else:
                v = self.eval(e, s, fr)
                if isinstance(v, SArr):
                    items.append(('mask' if v.elem == 'bool' else 'fancy', v))
                elif isinstance(v, STuple) and len(v) == 1 and isinstance(v.items[0], SArr):
                    # result of np.nonzero used as an index
                    items.append(('fancy', v.items[0]))
                elif isinstance(v, SList):
                    raise Unsupported("list used as array index")
                else:
                    items.append(('idx', to_int(v)))
        return items

    def _opt_int(self, v):
        if isinstance(v, SNone):
            return None
        return to_int(v)

    def expr_Subscript(self, node, s, fr):
        obj = self.eval(node.value, s, fr)
        if isinstance(obj, (STuple, SList)):
            if isinstance(node.slice, ast.Slice):
                lo = None if node.slice.lower is None else int(to_int(self.eval(node.slice.lower, s, fr)))
                hi = None if node.slice.upper is None else int(to_int(self.eval(node.slice.upper, s, fr)))
                stp = None if node.slice.step is None else int(to_int(self.eval(node.slice.step, s, fr)))
                seq = obj.items if isinstance(obj, STuple) else s.lists[obj.lid]
                part = seq[slice(lo, hi, stp)]
                return STuple(part) if isinstance(obj, STuple) else s.new_list(part)
            i = to_int(self.eval(node.slice, s, fr))
            seq = obj.items if isinstance(obj, STuple) else s.lists[obj.lid]
            if i.concrete:
                if not (-len(seq) <= i.v < len(seq)):
                    self.oblige(fr, s, 'index', 'sequence-index', SBool(False), node.lineno)
                    raise Unsupported("constant index out of range")
                return seq[i.v]
            self.oblige(fr, s, 'index', 'sequence-index', And(i >= 0, i < len(seq)), node.lineno)
            if not seq:
                raise Unsupported("index into empty sequence")
            res = seq[-1]
            for k in range(len(seq) - 2, -1, -1):
                res = merge_values(i == k, seq[k], res)
            return res
        if isinstance(obj, SArr):
            items = self.index_items(node.slice, s, fr)
            if any(it[0] in ('mask', 'fancy') for it in items):
                return bnp.load_fancy(self, s, fr, obj, items, node.lineno)
            dims, checks = st.apply_index(obj, items, s.knows)
            for (i, n) in checks:
                self.oblige(fr, s, 'index', 'index-in-bounds', And(SInt(0) <= i, i < n), node.lineno)
            res = SArr(obj.base, dims)
            if res.ndim == 0:
                return st.read_base(s, obj.base, [d[1] for d in dims])
            return res
        if isinstance(obj, SRecord) and 'm:__getitem__' in obj.fields:
            # a modelled library object whose subscript is given by an assumed contract (hook)
            if isinstance(node.slice, ast.Slice):
                parts = [NONE if e is None else self.eval(e, s, fr) for e in (node.slice.lower, node.slice.upper, node.slice.step)]
                key = SRecord('slice', {'start': parts[0], 'stop': parts[1], 'step': parts[2]})
            else:
                key = self.eval(node.slice, s, fr)
            return obj.fields['m:__getitem__'](self, s, fr, obj, [key], {}, node.lineno)
        raise Unsupported(f"subscript of {type(obj).__name__}")

    def index_value(self, arr, i, s, fr):
        """arr[i] for a 1-d (or row of 2-d) array without obligations (used by iteration)"""
        dims, _ = st.apply_index(arr, [('idx', i)])
        res = SArr(arr.base, dims)
        if res.ndim == 0:
            return st.read_base(s, arr.base, [d[1] for d in dims])
        return res

    def expr_Attribute(self, node, s, fr):
        obj = self.eval(node.value, s, fr)
        return bnp.get_attribute(self, s, fr, obj, node.attr, node.lineno)

    def expr_Call(self, node, s, fr):
        return bnp.call(self, s, fr, node)

    def expr_Lambda(self, node, s, fr):
        raise Unsupported("lambda")

    def check_param_type(self, fr, s, callee, pname, pspec, aval, lineno):
        """the callee's contract types a parameter as finite: the caller must establish it"""
        if isinstance(pspec, Flt) and pspec.finite and isinstance(aval, SFloat) and not aval.known_finite:
            self.oblige(fr, s, 'pre', f'{callee.simple_name}.{pname}-finite', aval.is_fin(), lineno)
        elif isinstance(pspec, Tup) and isinstance(aval, STuple):
            for k, (sp, av) in enumerate(zip(pspec.items, aval.items)):
                self.check_param_type(fr, s, callee, f'{pname}[{k}]', sp, av, lineno)
        elif isinstance(pspec, Arr) and pspec.finite and isinstance(aval, SArr) and aval.elem == 'float' \
                and not aval.base.finite:
            from .values import forall
            from .builtins_np import cell
            if aval.ndim != 1:
                raise Unsupported("finiteness of an n-d array argument")
            n = aval.length()
            self.oblige(fr, s, 'pre', f'{callee.simple_name}.{pname}-finite',
                        forall('int', lambda k: Implies(And(k >= 0, k < n), to_float(cell(s, aval, k)).is_fin())), lineno)

    # ------------------------------------------------------------------ calls to functions under contract

    def call_contract(self, callee, args, s, fr, lineno):
        params = callee.param_list(fr.config)
        if len(args) != len(params):
            raise Unsupported(f"call to {callee.simple_name}: {len(args)} arguments for {len(params)} parameters")
        vals = {p[0]: a for p, a in zip(params, args)}
        pre_heap = dict(s.heap)
        pre_lists = dict(s.lists)
        pre = Ctx(vals, pre_heap, pre_lists, config=fr.config)
        for (pname, pspec), aval in zip(params, args):
            self.check_param_type(fr, s, callee, pname, pspec, aval, lineno)
        for label, b in labelled(callee.requires(pre) if callee.requires else None, 'requires'):
            self.oblige(fr, s, 'pre', f'{callee.simple_name}.{label}', b, lineno)
        for name in callee.modifies:
            for arr in _arrays_in(vals[name], s.lists):
                st.havoc_view(s, arr)
            if isinstance(vals[name], SList):
                s.lists[vals[name].lid] = tuple(self.havoc_value(x, s, name) for x in s.lists[vals[name].lid])
        rspec = callee.returns(pre) if callable(callee.returns) else callee.returns
        if rspec is None:
            result = NONE
        elif not isinstance(rspec, Sort):
            # alias return: the contract names the very value returned (e.g. a view of an existing buffer)
            result = _unwrap(rspec)
        else:
            result, assumptions = make_symbolic(rspec, s, callee.simple_name + '_r')
            for a in assumptions:
                s.assume(a)
        post = Ctx(vals, s.heap, s.lists, config=fr.config)
        ctx = Ctx(vals, pre_heap, pre_lists, post=post, config=fr.config)
        r = wrap(result, post._sink)
        fr.n_calls = getattr(fr, 'n_calls', 0) + 1
        for label, b in labelled(callee.ensures(ctx, r) if callee.ensures else None, 'ensures'):
            s.assume_named(f'call:{callee.simple_name}.{label}#{fr.n_calls}', b)
        info = self.functions.get(fr.contract.target)
        if info is not None:
            info.setdefault('calls', set()).add(callee.target)
        return result


# ---------------------------------------------------------------------- helpers

def _unwrap(v):
    """contract-side views back to engine values"""
    if isinstance(v, ArrView):
        return v.arr
    if isinstance(v, RecView):
        return v._rec
    if isinstance(v, (tuple, list)):
        return STuple(_unwrap(x) for x in v)
    return v


class RaisesException(Exception):
    def __init__(self, exc):
        self.exc = exc


def _as_load(t):
    t2 = ast.parse(ast.unparse(t), mode='eval').body
    ast.copy_location(t2, t)
    for n in ast.walk(t2):
        if not hasattr(n, 'lineno'):
            n.lineno = getattr(t, 'lineno', 0)
    return t2


def _target_names(t):
    if isinstance(t, ast.Name):
        return [t.id]
    if isinstance(t, (ast.Tuple, ast.List)):
        out = []
        for e in t.elts:
            out += _target_names(e)
        return out
    return []


def _target_index_name(target, dom):
    """name under which the invariant sees the iteration index"""
    if dom['kind'] == 'range' and isinstance(target, ast.Name):
        return target.id
    if dom['kind'] == 'enumerate' and isinstance(target, ast.Tuple) and isinstance(target.elts[0], ast.Name):
        return target.elts[0].id
    return '_k'


def _arrays_in(v, lists):
    if isinstance(v, SArr):
        return [v]
    if isinstance(v, STuple):
        out = []
        for x in v.items:
            out += _arrays_in(x, lists)
        return out
    if isinstance(v, SList):
        out = []
        if isinstance(lists.get(v.lid, ()), GList):
            return out
        for x in lists.get(v.lid, ()):
            out += _arrays_in(x, lists)
        return out
    if isinstance(v, SRecord):
        out = []
        for x in v.fields.values():
            out += _arrays_in(x, lists)
        return out
    return []


def _content_same(a, b):
    if isinstance(a, dict) and isinstance(b, dict):
        if a.get('fn') is not None or b.get('fn') is not None:
            return a.get('fn') is b.get('fn')
        tv = (a['tag'] is None and b['tag'] is None) or (a['tag'] is not None and b['tag'] is not None
                                                         and a['tag'].eq(b['tag']))
        return a['val'].eq(b['val']) and tv
    if isinstance(a, tuple) and isinstance(b, tuple) and len(a) == len(b):
        return all(x is y or values_equal_syntactically(x, y) for x, y in zip(a, b))
    return False


def _cells_equal(x, y):
    if isinstance(x, SFloat):
        return x.same(y)
    if isinstance(x, SBool):
        return x.iff(y)
    return x == y


def _content_equal(base, a, b):
    if isinstance(a, dict):
        from .values import forall
        ra, rb = st.content_reader(base, a), st.content_reader(base, b)
        return forall(['int'] * len(base.shape), lambda *js: _cells_equal(ra(list(js)), rb(list(js))))
    out = SBool(True)
    for x, y in zip(a, b):
        out = out & _cells_equal(x, y)
    return out


def _merge_content(c, a, b):
    if a is b:
        return a
    if isinstance(a, dict) and isinstance(b, dict):
        if a.get('fn') is not None or b.get('fn') is not None:
            return None   # resolved by the caller with the base at hand
        cz = c.z()
        val = a['val'] if a['val'].eq(b['val']) else z3.If(cz, a['val'], b['val'])
        if a['tag'] is None and b['tag'] is None:
            tag = None
        else:
            ta = a['tag'] if a['tag'] is not None else z3.K(int_sort(), z3.IntVal(FIN))
            tb = b['tag'] if b['tag'] is not None else z3.K(int_sort(), z3.IntVal(FIN))
            tag = ta if ta.eq(tb) else z3.If(cz, ta, tb)
        return {'val': val, 'tag': tag, 'fn': None}
    if isinstance(a, tuple) and isinstance(b, tuple) and len(a) == len(b):
        return tuple(x if x is y else merge_values(c, x, y) for x, y in zip(a, b))
    raise Unsupported("merge of differently shaped arrays")


def _clone_guarded(self):
    c = self.clone()
    c.guards = list(getattr(self, 'guards', []))
    return c


st.State.clone_guarded = _clone_guarded
