"""python3-vt gen_manifest.py: refresh the per-check texts of MANIFEST.json (level_claimed.text, level_note) from
contracts/plan.py, keeping everything else, and validate against the schema."""
import json
import os
import sys

HERE = os.path.dirname(os.path.abspath(__file__))
sys.path.insert(0, HERE)
from contracts.plan import PLAN  # noqa: E402

m = json.load(open(os.path.join(HERE, 'MANIFEST.json')))
for chk in m['checks']:
    plan = PLAN[chk['property_id']]
    chk['level_claimed']['category'] = plan['level']
    chk['level_claimed']['text'] = plan['explanation']
    chk['level_note'] = '; '.join(plan.get('assumptions', []))
json.dump(m, open(os.path.join(HERE, 'MANIFEST.json'), 'w'), indent=1)
try:
    import jsonschema
    jsonschema.validate(m, json.load(open('/root/.vp/MANIFEST.schema.json')))
    print('MANIFEST.json valid,', len(m['checks']), 'checks')
except ImportError:
    print('jsonschema not available: not validated')
