"""developer driver: python3-vt dev.py <contract module> [function substring]"""
import importlib, sys, time, traceback
sys.path.insert(0, '/verif')
from pyvc.contracts import Registry
from pyvc.engine import Engine
from pyvc.lemmas import lemma_obligations
from pyvc.solver import solve_all
from pyvc.values import Unsupported

mods = sys.argv[1].split(',')
filt = sys.argv[2] if len(sys.argv) > 2 else ''
timeout = float(sys.argv[3]) if len(sys.argv) > 3 else 30
reg = Registry()
import os
for m in mods:
    mod = importlib.import_module('contracts.' + m)
    if os.environ.get('CFGS'):
        mod.register(reg, configs=[tuple(int(x) for x in c.split(',')) for c in os.environ['CFGS'].split(';')])
    else:
        mod.register(reg)
eng = Engine(reg)
t0 = time.time()
for c in reg.by_target.values():
    if c.trusted or filt not in c.target:
        continue
    for cfg in (c.configs or [None]):
        try:
            eng.verify(c, cfg)
        except Unsupported as e:
            print('UNSUPPORTED', c.target, cfg, e)
        except Exception:
            print('ERROR in', c.target, cfg); traceback.print_exc()
obs = list(eng.obligs)
for lem in reg.lemmas.values():
    if filt in lem.name:
        obs += lemma_obligations(reg, lem)
print(f"{len(obs)} obligations generated in {time.time()-t0:.1f}s")
res = solve_all(obs, jobs=16, timeout_s=timeout)
bad = 0
for ob in obs:
    r = res[ob.id]
    if r.status != 'proved' and not (ob.expect == 'refutable' and any(
            res[o.id].status == 'proved' for o in obs if o.expect == 'refutable' and o.func == ob.func and o.config == ob.config)):
        bad += 1
        print(f"  {r.status.upper():8s} {ob.name}  [{r.backend} {r.time_s:.2f}s] {r.detail}")
        if r.model and '-m' in sys.argv:
            print('     model:', r.model)
slow = sorted(obs, key=lambda o: -res[o.id].time_s)[:int(__import__("os").environ.get("SLOWN", "5"))]
print("slowest:", [(o.name, round(res[o.id].time_s, 2)) for o in slow])
print(f"proved {len(obs)-bad}/{len(obs)} in {time.time()-t0:.1f}s")
