"""developer guard (not a registered check): run the contract-guided witness search of every contract on the
UNCHANGED tree.  A witness found here contradicts a discharged proof, i.e. it is a bug of the input builders /
generators (or an unsound assumption) - it would turn into a false alarm the day the function becomes undecided.

    PYVC_REPO=<worktree> python3-vt witness_selftest.py <modules,comma> [function substring] [n per configuration]
"""
import importlib
import sys

sys.path.insert(0, '/verif')
from pyvc.contracts import Registry   # noqa: E402
from pyvc import witness              # noqa: E402

reg = Registry()
for m in sys.argv[1].split(','):
    importlib.import_module('contracts.' + m).register(reg)
filt = sys.argv[2] if len(sys.argv) > 2 else '::'
n = int(sys.argv[3]) if len(sys.argv) > 3 else 15
bad = 0
for t, c in reg.by_target.items():
    if filt in t and not c.trusted:
        for cfg in (c.configs or [None]):
            r = witness.search(c, cfg, n, 0)
            print(t, cfg, r['evaluated'], r['generated'], 'WITNESS' if r['witness'] else 'none', flush=True)
            if r['witness']:
                bad += 1
                print(str(r['witness'])[:800])
sys.exit(1 if bad else 0)
